"""Which engines decide which property, with what budgets (read by ./check and gen_manifest.py)."""

LS = "lockstep: scripted history on the real cache (virtual clock, manually fed cleanup ticks at exact instants, wait() after every step), " \
     "observation trace (results, look-ups of the whole key universe, callbacks, policy events, snapshot of store/policy/expiry index, metrics) " \
     "checked offline by an executable reference model; distinct by hash of (steps, config); non-trivial = history with ticks or updates"
HO = "hostile: 2-16 client threads on few keys, mixed operations, tiny to default buffers, seeded delays at the yield points, time-keeper thread " \
     "advancing the virtual clock and feeding ticks; per-call records stamped by one logical clock; offline history checkers and invariants at the quiescent end; " \
     "distinct by (seed, threads, keys, config); non-trivial = history with evictions/expiries or replaced values"


def ls(prop, q=300, t=4000, shards_q=4, shards_t=16, flavors=None, profile=None):
    args = ["--quick-n", str(q), "--thorough-n", str(t)]
    if flavors:
        args += ["--flavors", flavors]
    if profile:
        args += ["--profile", profile]
    return dict(engine="lockstep", shards=dict(quick=shards_q, thorough=shards_t), args=args)


def ls_async_quick(prop):
    """a slice of the lockstep histories on async executors already in the quick tier"""
    return ls(prop, q=150, t=1500, shards_q=2, shards_t=8, flavors="tokio-mt,thread-per-task,seeded")


def hammer(q=20, t=300):
    """hostile 'hammer' mode: 8-16 threads writing 1-3 keys without delays, validator 'only greater weight'"""
    return dict(engine="hostile", shards=dict(quick=4, thorough=16), args=["--quick-n", str(q), "--thorough-n", str(t), "--mode", "hammer"])


def pairs(q=30, t=400):
    """hostile 'pairs' mode: fresh keys, each taken by two consecutive callers (one inserts, one removes)"""
    return dict(engine="hostile", shards=dict(quick=4, thorough=16), args=["--quick-n", str(q), "--thorough-n", str(t), "--mode", "pairs"])


def ga(q=1, t=6, shards_q=4, shards_t=16):
    return dict(engine="gated", shards=dict(quick=shards_q, thorough=shards_t), args=["--quick-n", str(q), "--thorough-n", str(t)])


GA = "gated: for every pair (yield point inside a critical window: 17 reached by the processor, 8 by a client; entry points of the store and policy operations included) x (racing operation: clear, remove/update/look-up of the same key - for the cleanup points the key the tick finds expired, refreshed with and without TTL -, insert/remove of another key, remove/second insert of the key whose first insert is in flight, in-place write, tick, wait, insert_if_present on a still-buffered and on a resident key) " \
     "the thread is parked at the point on the real code while the racing operation runs to completion (or is seen to wait for the parked thread), then the history is quiesced and judged; quick: all pairs x 2 flavours, thorough: all pairs x 4 flavours x 6 seeds"


def ho(prop, q=40, t=600, shards_q=4, shards_t=16, flavors=None):
    args = ["--quick-n", str(q), "--thorough-n", str(t)]
    if flavors:
        args += ["--flavors", flavors]
    return dict(engine="hostile", shards=dict(quick=shards_q, thorough=shards_t), args=args)


ASYNC_ALL = "tokio-mt,tokio-ct,async-std,thread-per-task,seeded"


def also_async(stage_list):
    """thorough tier: every lockstep / hostile stage is repeated against AsyncCache on the four executors"""
    out = list(stage_list)
    for st in stage_list:
        if st["engine"] in ("lockstep", "hostile") and "--flavors" not in st.get("args", []) and not st.get("sanitizer"):
            n = "300" if st["engine"] == "lockstep" else "60"
            out.append(dict(engine=st["engine"], tiers=["thorough"], shards=dict(thorough=8), args=["--thorough-n", n, "--flavors", ASYNC_ALL], timeout=dict(thorough=3600)))
    return out


def tsan(engine, n=30, shards=4, extra=()):
    """the same workload under ThreadSanitizer (thorough tier only; nightly, -Zbuild-std)"""
    return dict(engine=engine, sanitizer="tsan", tiers=["thorough"], shards=dict(thorough=shards), args=["--thorough-n", str(n)] + list(extra), timeout=dict(thorough=3600))


def asan(engine, n=None, shards=4, extra=()):
    args = (["--thorough-n", str(n)] if n else []) + list(extra)
    return dict(engine=engine, sanitizer="asan", tiers=["thorough"], shards=dict(thorough=shards), args=args, timeout=dict(thorough=3600))


def miri(*scenarios, seeds=4):
    return dict(engine="miri", tiers=["thorough"], scenarios=list(scenarios), seeds=seeds, timeout=2400)


SAN = " || thorough tier: the same workloads under ThreadSanitizer / AddressSanitizer builds of the harness and small scenarios under Miri; every report that survives tsan.supp counts"

PLAN = {
    "C01": dict(
        stages=[ls("C01"), ls_async_quick("C01"), ho("C01", q=60), ga()],
        rule=LS + " || " + HO + " || " + GA + " (after each race four more admissions under tight capacity: what is resident must still fit)",
        clauses=["policy observer log replayed step by step (emitted under the policy lock): used == sum of per-key charges at every add/update/remove/clear; "
                 "oversize never admitted; every admission of a new key leaves used <= max_cost; victims' costs == their charges; update delta == new - old; "
                 "update_max_cost in effect for every later add; max_cost() == last value stored",
                 "lockstep: excess of used over max_cost only grows in update / update_max_cost steps; admitted only with room after the observed evictions"],
        minimum=dict(quick=dict(policy_events_checked=20000, policy_admissions=1000, ls_histories=200, ho_histories=40)),
        assumptions=["equalities are decided on histories whose true sum of charges fits in i64 (beyond that an i64 total has no defined answer); costs near i64::MAX are used for survival and oversize clauses"],
    ),
    "C02": dict(
        stages=[ho("C02", q=100), ls("C02"), ls("C02", q=100, t=1500, shards_q=2, shards_t=8, profile="C18"), ga(), tsan("hostile"), asan("hostile", n=30), miri("store")],
        rule=HO + " || " + LS + " || " + GA + SAN,
        clauses=["R1 returned value carries the looked-up key", "R2 written by an insert that returned true or an in-place write, not from the future",
                 "R3a no value written before a remove that was applied (later wait() Ok, no clear overlapping)", "R3a' removal of an observably resident value is immediate",
                 "R3b no value written before a clear() that returned before the look-up began", "R4 an update still resident at the end is returned by every look-up after it",
                 "never a value already handed to a callback", "R5 (lockstep) exactly the last value written; update path taken inside the call", "gated: with the processor parked, an update-path insert is visible to the next look-up and a removed value is not",
                 "a third of the hostile histories run under the colliding key builder (keys 2i / 2i+1 share the index hash): buffered inserts, removes and in-place updates of colliding keys race each other; only the C02 / C18 value clauses are decided there"],
        minimum=dict(quick=dict(ho_c02_lookups_checked=20000, ho_c02_r3_candidates=5000, ls_histories=200)),
        assumptions=["registers are not linearizable by design (a new key becomes visible asynchronously): the clauses above are what the statement promises"],
    ),
    "C03": dict(
        stages=[ls("C03", q=400), ls_async_quick("C03"), ga()],
        rule=LS + " || " + GA + " (clause: below capacity nothing reaches on_evict before the deadline of the insert that wrote it, or without a TTL)",
        clauses=["visible iff now - t_insert < d", "get_ttl == ValueRef::ttl == d - (now - t_insert) exactly; Duration::MAX without TTL", "re-insert replaces the deadline (stored ttl/created compared)",
                 "TTL grid: 1 ms .. 100 h, insert offsets 0/1ns/.499/.5/.999999999 s, clock aimed at d-1ns/d/d+1ns and second boundaries"],
        minimum=dict(quick=dict(ls_histories=300, ls_ticks=10000, ls_reclaimed_by_ttl=500)),
        assumptions=["time is the hook's virtual clock (type substituted for SystemTime in src/ttl.rs; every line of Time stays live)"],
    ),
    "C04": dict(
        stages=[ls("C04", q=400), ls_async_quick("C04"), ga()],
        rule=LS + "; max_cost == sum of the per-key charges exactly (tight) so nothing may ever be refused or evicted || " + GA + " (clause: below capacity nothing reaches on_evict before the deadline of the insert that wrote it, or without a TTL)",
        clauses=["every key: presence and value id equal the model after every step", "no on_reject, on_evict only for elapsed TTLs", "insert returns true", "nothing swept before its deadline", "in a third of the histories with the internal overhead ignored one key has cost 0 (an entry charged nothing is admitted, swept and re-admitted like any other)"],
        minimum=dict(quick=dict(ls_histories=300, ls_updates=3000, ls_ticks=10000)),
        assumptions=[],
    ),
    "C05": dict(
        stages=[ls("C05", q=400), ls_async_quick("C05"), ho("C05", q=60, t=600)],
        rule=LS + "; cleanup intervals 0.1/0.25/0.5/1/2(default, read back from the hook)/3/5 s, every tick phase || " + HO + " (clause: at the quiescent end, 8 s of virtual time and one tick after the clients were joined, nothing whose deadline + bucket width + interval has passed is still resident - also entries the stalled processor filed after their bucket had been swept)",
        clauses=["never early: reclaimed only with deadline <= tick time", "bounded delay: deadline + 1 s + interval <= tick time => gone from store, policy, len()", "on_evict exactly once with id and charged cost", "charge released",
                 "2 of 10 histories under a colliding key builder (inserts / removes of keys sharing the index hash): the never-early and bounded-delay clauses stay decided there (entry identified by its value id)",
                 "real ticker (10 ms) scenario per flavour: wiring of the tick arm"],
        minimum=dict(quick=dict(ls_reclaimed_by_ttl=1000, ls_ticks=10000, ls_interval_ms_2000=50)),
        assumptions=["ticks are delivered (never skipped) at phase + n*interval of the virtual clock"],
    ),
    "C06": dict(
        stages=[ho("C06", q=100), ho("C06", q=40, t=240, shards_q=2, shards_t=8, flavors="tokio-mt,tokio-ct,seeded"), pairs(), ls("C06"), ga(), tsan("hostile")],
        rule=GA + " || " + HO + SAN + "; histories in which a call returned Err are excluded (the statement's exemption) and counted",
        clauses=["keys(store) == keys(policy) at the quiescent end", "len() == number of resident entries", "same invariant after every lockstep step",
                 "async slice (tokio multi/current thread, seeded executor) with tiny insert buffers and no client-side wait(): a full buffer without any reported error"],
        minimum=dict(quick=dict(ho_c06_evaluations=60, ho_evictions_and_expiries=2000, ls_histories=200)),
        assumptions=["quiescent = clients joined, wait() Ok, tick handled, wait() Ok, hook counters stable across the snapshot"],
    ),
    "C07": dict(
        stages=[dict(engine="policy", shards=dict(quick=4, thorough=16)), ls("C07")],
        rule="one case = one add(key,cost) on the real LFUPolicy (real worker thread) from a randomly built state "
             "(residents, costs, max_cost incl. lowered below used, popularity shaped by pushed look-up batches); "
             "non-trivial = the add entered the eviction path (room < 0); distinct by (round, step, key, cost, max_cost, used, residents) || " + LS,
        clauses=["oversize refused cleanly", "resident key = cost update only", "room >= 0 => admitted, no victim, no sampling",
                 "loop only while room < 0 (room recomputed)", "sample = 5 candidates or all residents", "candidates are residents with their cost or evicted earlier in this call",
                 "victim = least popular candidate (estimates recomputed through the facade, not taken from the observer)",
                 "victim no more popular than newcomer", "reject iff newcomer strictly less popular than sample minimum", "returned victims == observed victims",
                 "post-state == pre-state - victims (+ newcomer iff admitted); room >= 0 after admission",
                 "cache level: victims reach on_evict with their charge, refused items reach on_reject, eviction only while room is lacking"],
        minimum=dict(quick=dict(c07_loop_iterations=2000, c07_rejections=200, c07_multi_iteration_adds=100, c07_iterations_with_5_residents=100, ls_evicted_for_room=200)),
        assumptions=["policy worker drained (kept == applied) before each add, so estimates are stable while the oracle reads them"],
    ),
    "C08": dict(
        stages=[ho("C08", q=100), pairs(), ls("C08"), ls_async_quick("C08"), ga(), dict(engine="close", shards=dict(quick=2, thorough=8), args=["--quick-n", "320", "--thorough-n", "4000"]), tsan("hostile")],
        rule=HO + " || " + LS + " || " + GA + SAN,
        clauses=["every accepted value: exactly one of {resident, on_exit, on_evict, on_reject, overwritten in place}", "none of them only if dropped inside a clear()/close() call",
                 "never two", "no look-up returns a value after its callback", "no value leaked after the cache and its workers are gone", "lockstep: callback kind matches the cause",
                 "directed close: values accepted into the insert buffer before close() sent its stop signal (processor parked holding an item) end resident or with exactly one callback - only resident values may be dropped silently by close()"],
        minimum=dict(quick=dict(ho_c08_values_accounted=20000, ho_callbacks=10000, ls_histories=200, lc_values_buffered_before_the_stop_signal=40)),
        assumptions=["collision-free keys; no ValueRefMut::write (drops the replaced value in the caller by design)"],
    ),
    "C09": dict(
        stages=[ls("C09", q=400), ls_async_quick("C09"), ho("C09", q=60), hammer(), ga()],
        rule=LS + "; validators: never / only-greater / new-id-even / value-dependent; Coster on",
        clauses=["insert_if_present on absent => false, no callback, cache unchanged", "on resident => update of value and cost (after an insert_if_present that returned true the key is charged the new cost: a charge mismatch on that key is C09's as well as C16's)", "vetoed insert / insert_with_ttl / insert_if_present: value and remaining TTL unchanged, still reclaimed at the old deadline",
                 "expired-but-unswept key: both outcomes accepted (the statement does not decide it)",
                 "concurrent / gated (also while the key's first insert is still buffered): insert_if_present returns true only if it replaced a resident value inside the call; a false one leaves no trace of its value"],
        minimum=dict(quick=dict(ls_vetoes=1000, ls_updates=2000, ho_c09_replacements_checked_against_validator=2000)),
        assumptions=[],
    ),
    "C10": dict(
        stages=[ho("C10", q=100), dict(engine="waitrace", shards=dict(quick=4, thorough=16), args=["--quick-n", "480", "--thorough-n", "6000"]), tsan("hostile"), tsan("waitrace", n=60, shards=2, extra=["--flavors", "sync"]), miri("lifecycle")],
        rule=HO + " (barrier mode: disjoint keys per thread, ample capacity, each batch followed by wait() and an immediate check of the thread's own keys) || "
             "termination: waiters vs close / clear / both (in half of the closes the processor is parked right after its final drain, still owning the buffer's receiving end, while the waiters go on), readers and writers on one shard; every flavour; verdict from state (worker exit counters, thread states), never from a timeout",
        clauses=["after wait() Ok: a key written exactly once since the previous barrier holds that value and is charged / is gone and uncharged", "keys written several times: store and policy agree",
                 "batches overlapping a clear() or following an Err are not judged (counted)", "wait() returns (Ok or Err) under races with clear() and close(); Err only explainable by a full buffer or closing cache",
                 "a blocked waiter with an exited processor, or a process in which no thread can run, is a violation with stacks"],
        minimum=dict(quick=dict(ho_c10_exact_key_verdicts=3000, lc_wait_ok=50000, lc_waitrace_scenarios=200, lc_closes_with_processor_parked_after_final_drain=20)),
        assumptions=["several writes to one key between two barriers are applied out of program order by design (updates at once, queued removes and first inserts later)"],
    ),
    "C11": dict(
        stages=[ls("C11", q=400), ls_async_quick("C11"), ls("C11", q=150, t=1500, shards_q=2, shards_t=8, profile="C19"), ho("C11", q=100), ga(), tsan("hostile")],
        rule=LS + " || " + HO + " || " + GA + SAN,
        clauses=["after clear(): every key absent, len 0, used 0, counters zero, histogram empty", "afterwards exactly the fresh-cache model, incl. keys re-used with another TTL or none across their old expiry seconds",
                 "concurrent: nothing written before a completed clear() is returned afterwards; barrier clauses for inserts begun after clear() returned",
                 "lockstep: the metric balances (keys added - evicted == charged entries, cost added - evicted == used) that held at every record before the first clear() hold at every record after it (also on a stage with varying costs, Coster and validators)",
                 "fresh-equivalence: the history after the last clear(), replayed at the same virtual instants on a freshly built cache, gives identical returns, look-ups, TTLs, callbacks, resident entries, charges, metrics and histogram, record by record (every second below-capacity history; 2 of 10 under a colliding key builder)"],
        minimum=dict(quick=dict(ls_clears=1000, ho_op_clear=300, c11_suffixes_replayed_on_a_fresh_cache=100)),
        assumptions=[],
    ),
    "C12": dict(
        stages=[dict(engine="close", shards=dict(quick=4, thorough=16), args=["--quick-n", "480", "--thorough-n", "8000"]), miri("lifecycle"), tsan("close", n=120, shards=2, extra=["--flavors", "sync"])],
        rule="scenarios x flavours (sync, tokio multi-thread, tokio current-thread, async-std, thread-per-task): close idle / after a history / 2-8 concurrent closers / "
             "try_* + wait + clear + get_ttl racing the close / drop without close / close with a pending buffer / directed: closer parked between its clear() and its stop signal while inserts are admitted (entries resident when close() returns); distinct by scenario description",
        clauses=["no panic, no hang (state-based)", "after a close() returned Ok: insert false, look-ups None, remove/clear/wait/close Ok, no effect on the cache", "every insert variant (insert, insert_with_ttl, insert_if_present) on every key of the scenario returns false after close(), also on keys whose entry was left in the closed store by an insert racing the close", "both workers exit (guard counters); OS thread count back to baseline (sync); spawned tasks finished (async)",
                 "same when all handles are dropped without close()"],
        minimum=dict(quick=dict(lc_close_scenarios=480, lc_entries_resident_when_close_returned=20)),
        assumptions=[],
    ),
    "C13": dict(
        stages=[dict(engine="sketch", shards=dict(quick=4, thorough=16)), asan("sketch", shards=4), miri("components")],
        rule="one case = one random sequence of records / clears on TinyLFU (3 of 4 cases) or on CountMinSketch + CountMinRow (1 of 4) for one num_counters "
             "(every width 1..70 in turn, plus 100..65536) and one hash pattern (uniform, few distinct, only-high, only-low, middle bits, 0/u64::MAX, sequential); "
             "distinct by (num_counters, pattern, kind, rng state)",
        clauses=["estimate >= min(records since reset, 16)", "estimate <= 16", "estimates never decrease between resets (recorded and untouched keys)",
                 "per-row total of counters never falls and rises by at most 1 per record (no wrap, no spill into the neighbouring counter)",
                 "fresh / cleared estimator answers 0", "at every num_counters-th record: every counter halved (at most one cell per row off by the pending increment), doorkeeper emptied",
                 "CountMinSketch.reset halves exactly, clear zeroes", "CountMinRow cell-exact against a shadow", "no panic"],
        minimum=dict(quick=dict(c13_records=100000, c13_resets_expected=1000)),
        assumptions=["facade delegates 1:1 to the crate-private types"],
    ),
    "C14": dict(
        stages=[dict(engine="bloom", shards=dict(quick=4, thorough=16)), asan("bloom", shards=4), miri("components")],
        rule="one case = one filter (capacity in {1..10^5} x target rate {0.05,0.01,0.001} x added set {uniform, only-high-bits, only-low-bits, sequential}), filled to capacity; "
             "distinct by (capacity, rate, set kind, rng state)",
        clauses=["every added hash present right after its add", "all hashes added so far present at doubling checkpoints and at the end",
                 "false-positive count over 20000 uniformly random never-added probes <= 3p*N + 7 sigma", "the same bound for 4000 never-added probes of each structured family (only high bits, only low bits, sequential), against every kind of added set", "fresh filter empty", "reset/clear: no hash present, zero bits set", "usable after reset"],
        minimum=dict(quick=dict(c14_adds=10000, c14_random_probes=200000, c14_structured_probes=200000)),
        assumptions=["'a small constant factor of p' is taken as 3 (plus 7 standard deviations of the binomial sampling error)"],
    ),
    "C15": dict(
        stages=[ls("C15", q=300), ho("C15", q=60)],
        rule=LS + "; buffer_items 0/1/2/3/64, num_counters 64/100 (aging resets modelled exactly from the Applied events) and 100000 || " + HO + " (readers mode)",
        clauses=["flushed batches are exactly the look-up stream cut every buffer_items keys (hits and misses)", "estimate(k) >= min(look-ups of k applied since the last aging reset / clear, 16)",
                 "gets_kept + gets_dropped == keys in flushed batches; gets_kept == keys in kept batches", "kept batches == applied batches at quiescence", "a batch is dropped only with a full policy queue (never on the async policy)"],
        minimum=dict(quick=dict(ls_estimate_checks=50000, ls_lookups_scripted=20000, ho_batches_flushed=2000)),
        assumptions=["estimates are read through the hook between two stamps of the logical clock; a check is skipped when an Applied/Clear event falls between them"],
    ),
    "C16": dict(
        stages=[ls("C16", q=400), ls_async_quick("C16"), dict(engine="types", shards=dict(quick=1, thorough=4))],
        rule=LS + "; explicit costs 1..9, 2^31, 2^40, 2^62, i64::MAX and neighbours, max_cost +-1; Coster valuation when the cost is 0; ignore_internal_cost both ways",
        clauses=["per-key charge in the policy == explicit cost (or Coster value when 0) + item_size unless ignored", "updates re-charge", "Item.cost in on_evict / on_reject == charge", "cost metrics move by the same amounts (C17 clauses)"],
        minimum=dict(quick=dict(ls_histories=300, ls_updates=2000)),
        assumptions=["value type sizes: one value type (Tracked) at cache level; the overhead constant is the hook-reported item_size, required > 0 and identical for every insert"],
    ),
    "C17": dict(
        stages=[ls("C17", q=400), ls_async_quick("C17"), ho("C17", q=60)],
        rule=LS + " (tight capacity: evictions and rejections occur) || " + HO,
        clauses=["hits + misses == look-ups made since the last clear (interval bounds when calls overlap a clear)", "keys_added - keys_evicted == charged entries", "cost_added - cost_evicted == used (wrapping)",
                 "sets_dropped == inserts that returned false", "sets_rejected == popularity rejections seen by the policy observer", "all zero after clear (a look-up made the instant clear() returned already counts in the new period)", "ratio() == hits/(hits+misses), also over windows with only hits, only misses, nothing (ratio scenarios on every flavour)",
                 "life-expectancy histogram: one sample per eviction/expiry of a tracked entry, in the bucket of its virtual lifetime; Count == sum of buckets"],
        minimum=dict(quick=dict(ls_histories=300, ls_evicted_for_room=300, ho_c17_evaluations=100, c17_ratio_windows_checked=100)),
        assumptions=[],
    ),
    "C18": dict(
        stages=[dict(engine="keys", shards=dict(quick=1, thorough=4)), ls("C18"), ho("C18", q=40, t=400)],
        rule="(a) DefaultKeyBuilder on random strings / byte vectors / u64 through every borrow form; (b) TransparentKeyBuilder exhaustively for bool,u8,i8,u16,i16 and on boundaries, powers of two and random values for the wider types; "
             "(c) " + LS + " with a key builder that maps keys 2i and 2i+1 to one index with distinct non-zero conflicts; (d) " + HO + " under the same colliding key builder (buffered inserts / removes of colliding keys racing each other; only the value clauses are decided there)",
        clauses=["same (index, conflict) for String/&str, Vec<u8>/&[u8], u64 by value/reference, repeated", "build_key == (hash_index, hash_conflict)",
                 "TransparentKeyBuilder: (x as u64, 0)", "distinct integer keys => distinct indices",
                 "under index collision: no operation on one key returns, overwrites or removes the other key's value",
                 "lockstep histories with an odd index base: the harness key builder overrides build_key only and leaves hash_conflict at its documented default 0 (every path of the cache has to go through build_key)"],
        minimum=dict(quick=dict(c18_default_builder_checks=10000, c18_transparent_exhaustive_u16=65536, ls_histories=200)),
        assumptions=["under index collisions the policy (keyed by index only) legitimately re-charges the resident key; charge, callback and C06 clauses are not decided there (counted)"],
    ),
    "C19": dict(
        stages=[dict(engine="differential", shards=dict(quick=4, thorough=16), args=["--quick-n", "50", "--thorough-n", "600"]),
                ho("C19", q=24, t=300, flavors=ASYNC_ALL), ls("C19", q=100, t=1500, flavors=ASYNC_ALL),
                dict(engine="waitrace", shards=dict(quick=2, thorough=8), args=["--quick-n", "80", "--thorough-n", "1500", "--flavors", ASYNC_ALL]),
                dict(engine="close", shards=dict(quick=2, thorough=8), args=["--quick-n", "120", "--thorough-n", "2500", "--flavors", ASYNC_ALL])],
        rule="(i) differential: one scripted history run on Cache and on AsyncCache (tokio multi-thread, tokio current-thread, async-std, thread-per-task, and the harness' own executor that polls the background tasks in a seeded random order), compared observation by observation; "
             "(ii) the hostile, lockstep, termination and close monitors re-run against AsyncCache on the five executors",
        clauses=["return values, look-ups, remaining TTLs (exact), callback multisets, metrics (gets_kept+gets_dropped as a sum), snapshots, histogram equal step by step",
                 "every async trace satisfies the reference model on its own", "every violation of another property observed on an async flavour counts against C19"],
        minimum=dict(quick=dict(diff_observations_compared=20000, ho_histories=60, ls_histories=300)),
        assumptions=["ample capacity in the differential runs: two instances never share sketch seeds or HashMap iteration order, so which victim is sampled is instance specific"],
        cross_property=True,
    ),
    "C20": dict(
        stages=[dict(engine="grid", shards=dict(quick=4, thorough=16))],
        rule="configuration grid: num_counters 0..70,100,1000 x max_cost {0,1,2,10,-1,-100,2^62} x buffer_size {0,1,2,8} x buffer_items {0,1,2,64} x metrics x ignore_internal_cost x cleanup {1 ns, 1 us, 1 ms, 1 s, default, u64::MAX s, Duration::MAX}; three orders of builder calls; "
             "quick: every num_counters with rotating partners plus every triple of the small parameters; thorough: full product; flavours sync / tokio multi-thread / thread-per-task (thorough: all five)",
        clauses=["zero num_counters / max_cost / buffer size => the named error", "otherwise: workload of inserts (boundary costs), look-ups across aging resets, removes, TTL expiry, evictions, clear",
                 "no panic on any thread (process-wide panic hook)", "both workers alive until close", "no hang and no livelock (a thread burning CPU inside the cache without logical progress)", "wait() returns Ok", "a final insert is still handled", "close ends both workers"],
        minimum=dict(quick=dict(lc_grid_scenarios=400)),
        assumptions=[],
    ),
}

for _p, _pl in PLAN.items():
    if _p != "C19":
        _pl["stages"] = also_async(_pl["stages"])
