"""Which engines decide which property, with what budgets (read by ./check)."""

PLAN = {
    "C07": dict(
        stages=[dict(engine="policy", shards=dict(quick=4, thorough=16), scale=dict(quick=1.0, thorough=1.0))],
        rule="one case = one add(key,cost) on the real LFUPolicy (real worker thread) from a randomly built state "
             "(residents, costs, max_cost incl. lowered below used, popularity shaped by pushed look-up batches); "
             "non-trivial = the add entered the eviction path (room < 0); distinct by (round, step, key, cost, max_cost, used, residents)",
        clauses=["oversize refused cleanly", "resident key = cost update only", "room >= 0 => admitted, no victim, no sampling",
                 "loop only while room < 0 (room recomputed)", "sample = 5 candidates or all residents", "candidates are residents with their cost or evicted earlier in this call",
                 "victim = least popular candidate (estimates recomputed through the facade, not taken from the observer)",
                 "victim no more popular than newcomer", "reject iff newcomer strictly less popular than sample minimum", "returned victims == observed victims",
                 "post-state == pre-state - victims (+ newcomer iff admitted); room >= 0 after admission"],
        minimum=dict(quick=dict(c07_loop_iterations=200, c07_rejections=20, c07_multi_iteration_adds=10)),
        assumptions=["policy worker drained (kept == applied) before each add, so estimates are stable while the oracle reads them",
                     "the observer hook reports the sample and victim the loop really used (hook is add-only, emitted under the policy lock)"],
    ),
    "C13": dict(
        stages=[dict(engine="sketch", shards=dict(quick=4, thorough=16))],
        rule="one case = one random sequence of records / clears on TinyLFU (3 of 4 cases) or on CountMinSketch + CountMinRow (1 of 4) for one num_counters "
             "(every width 1..70 in turn, plus 100..65536) and one hash pattern (uniform, few distinct, only-high, only-low, middle bits, 0/u64::MAX, sequential); "
             "distinct by (num_counters, pattern, kind, rng state)",
        clauses=["estimate >= min(records since reset, 16)", "estimate <= 16", "estimates never decrease between resets (recorded and untouched keys)",
                 "per-row total of counters never falls and rises by at most 1 per record (no wrap, no spill into the neighbouring counter)",
                 "fresh / cleared estimator answers 0", "at every num_counters-th record: every counter halved (at most one cell per row off by the pending increment), doorkeeper emptied",
                 "CountMinSketch.reset halves exactly, clear zeroes", "CountMinRow cell-exact against a shadow", "no panic"],
        minimum=dict(quick=dict(c13_records=100000, c13_resets_expected=1000)),
        assumptions=["facade delegates 1:1 to the crate-private types"],
    ),
    "C14": dict(
        stages=[dict(engine="bloom", shards=dict(quick=4, thorough=16))],
        rule="one case = one filter (capacity in {1..10^5} x target rate {0.05,0.01,0.001} x added set {uniform, only-high-bits, only-low-bits, sequential}), filled to capacity; "
             "distinct by (capacity, rate, set kind, rng state)",
        clauses=["every added hash present right after its add", "all hashes added so far present at doubling checkpoints and at the end",
                 "false-positive count over 20000 uniformly random never-added probes <= 3p*N + 7 sigma", "fresh filter empty", "reset/clear: no hash present, zero bits set", "usable after reset"],
        minimum=dict(quick=dict(c14_adds=10000, c14_random_probes=200000)),
        assumptions=["rate clause decided for uniformly random probes only (for probes correlated with a structured set no Bloom filter has a bound)"],
    ),
    "C18": dict(
        stages=[dict(engine="keys", shards=dict(quick=1, thorough=4))],
        rule="(a) DefaultKeyBuilder on random strings / byte vectors / u64 through every borrow form; (b) TransparentKeyBuilder exhaustively for bool,u8,i8,u16,i16 and on boundaries, powers of two and random values for the wider types",
        clauses=["same (index, conflict) for String/&str, Vec<u8>/&[u8], u64 by value/reference, repeated", "build_key == (hash_index, hash_conflict)",
                 "TransparentKeyBuilder: (x as u64, 0)", "distinct integer keys => distinct indices"],
        minimum=dict(quick=dict(c18_default_builder_checks=10000, c18_transparent_exhaustive_u16=65536)),
        assumptions=[],
    ),
}
