use std::sync::Arc;
use std::time::Duration;
use stretto::{AsyncCache, TransparentKeyBuilder};
type C = AsyncCache<u64, u64, TransparentKeyBuilder<u64>>;
fn mk(buf: usize) -> C {
    AsyncCache::builder(1000, 1_000_000).set_key_builder(TransparentKeyBuilder::<u64>::default())
        .set_ignore_internal_cost(true).set_buffer_size(buf).finalize(tokio::spawn).unwrap()
}
#[tokio::main(flavor = "multi_thread", worker_threads = 4)]
async fn main() {
    let which = std::env::args().nth(1).unwrap_or_default();
    match which.as_str() {
        "clear" => {
            let mut surv = 0;
            for _ in 0..20 {
                let c = mk(4096);
                for k in 0..200u64 { c.insert(k, k, 1).await; }
                c.clear().await.unwrap();
                c.wait().await.unwrap();
                if c.len() > 0 { surv += 1; }
                c.close().await.ok();
            }
            println!("async clear race: {surv}/20 runs had survivors");
        }
        "waitclose" => {
            let mut hangs = 0;
            for i in 0..40u64 {
                let c = Arc::new(mk(64));
                let mut hs = vec![];
                for _ in 0..4 { let c2 = c.clone(); hs.push(tokio::spawn(async move { for k in 0..50u64 { let _ = c2.try_insert(k, k, 1).await; let _ = c2.wait().await; } })); }
                tokio::time::sleep(Duration::from_micros(50 * (i % 20))).await;
                let _ = c.close().await;
                let all = async { for h in hs { let _ = h.await; } };
                if tokio::time::timeout(Duration::from_secs(3), all).await.is_err() { hangs += 1; }
            }
            println!("async wait vs close: {hangs}/40 runs left a waiter blocked >3s");
        }
        _ => {}
    }
}
