use std::collections::{HashMap, HashSet};
use std::sync::atomic::{AtomicU64, Ordering};
use std::sync::{Arc, Mutex};
use stretto::{Cache, CacheCallback, Item, TransparentKeyBuilder};
use stretto::verif::{clock, ticker};
use std::time::Duration;

#[derive(Default, Clone)]
struct Cb(Arc<Mutex<Vec<(u8, u64)>>>);
impl CacheCallback for Cb {
    type Value = u64;
    fn on_exit(&self, v: Option<u64>) { self.0.lock().unwrap().push((0, v.unwrap())); }
    fn on_evict(&self, i: Item<u64>) { self.0.lock().unwrap().push((1, i.val.unwrap())); }
    fn on_reject(&self, i: Item<u64>) { self.0.lock().unwrap().push((2, i.val.unwrap())); }
}
fn main() {
    let with_clear = std::env::args().nth(1).map(|s| s == "clear").unwrap_or(false);
    let mut bad_c06 = 0; let mut bad_c08 = 0; let mut evictions = 0usize; let mut hist = 0; let mut drift = 0; let mut sent_ticks = 0u64; let mut total_steps = 0u64; let mut bad_c17 = 0; let mut skipped = 0;
    for round in 0..300u64 {
        let cb = Cb::default();
        clock::set(1_700_000_000_000_000_000 + round * 137_000_000);
        ticker::arm_manual();
        let c: Arc<Cache<u64, u64, TransparentKeyBuilder<u64>, _, _, Cb>> = Arc::new(Cache::builder(1000, 8)
            .set_key_builder(TransparentKeyBuilder::<u64>::default()).set_callback(cb.clone())
            .set_ignore_internal_cost(true).set_metrics(true).set_buffer_size(if round % 2 == 0 { 4 } else { 1024 }).finalize().unwrap());
        let ids = Arc::new(AtomicU64::new(1));
        let accepted = Arc::new(Mutex::new(HashSet::new())); let meta: Arc<Mutex<HashMap<u64,(u64,u64,u64)>>> = Arc::new(Mutex::new(HashMap::new()));
        let cleared_possible = Arc::new(Mutex::new(false)); let errs = Arc::new(AtomicU64::new(0)); let lookups = Arc::new(AtomicU64::new(0)); let drops = Arc::new(AtomicU64::new(0));
        let mut hs = vec![];
        for t in 0..4u64 {
            let c = c.clone(); let ids = ids.clone(); let accepted = accepted.clone(); let meta = meta.clone(); let cp = cleared_possible.clone(); let errs = errs.clone(); let lookups = lookups.clone(); let drops = drops.clone();
            hs.push(std::thread::spawn(move || {
                let mut r = round * 977 + t * 31 + 1;
                for _ in 0..200 {
                    r ^= r << 13; r ^= r >> 7; r ^= r << 17;
                    let k = r % 16;
                    match (r >> 8) % 10 {
                        0..=4 => { let id = ids.fetch_add(1, Ordering::SeqCst); meta.lock().unwrap().insert(id, (k, if (r >> 40) % 3 == 0 { 0 } else { 100 + (r >> 44) % 1900 }, clock::get())); if c.try_insert_with_ttl(k, id, (1 + (r >> 20) % 3) as i64, if (r >> 40) % 3 == 0 { Duration::ZERO } else { Duration::from_millis(100 + (r >> 44) % 1900) }).unwrap_or(false) { accepted.lock().unwrap().insert(id); } else { drops.fetch_add(1, Ordering::SeqCst); } }
                        5 => { if c.try_remove(&k).is_err() { errs.fetch_add(1, Ordering::SeqCst); } }
                        6 if with_clear => { if (r >> 30) % 8 == 0 { *cp.lock().unwrap() = true; let _ = c.clear(); } }
                        _ => { let _ = c.get(&k).map(|v| *v.value()); lookups.fetch_add(1, Ordering::SeqCst); }
                    }
                }
            }));
        }
        let stop = Arc::new(std::sync::atomic::AtomicBool::new(false));
        let tk = { let stop = stop.clone(); std::thread::spawn(move || { let mut n = 0u64; while !stop.load(Ordering::SeqCst) { clock::advance(Duration::from_millis(40 + (n * 37) % 200)); n += 1; if n % 2 == 0 { ticker::tick(); } std::thread::sleep(Duration::from_micros(200)); } n }) };
        for h in hs { h.join().unwrap(); }
        stop.store(true, Ordering::SeqCst); let steps = tk.join().unwrap(); total_steps += steps;
        // drain ticks: one final tick and wait for completion
        while c.wait().is_err() { std::thread::yield_now(); }
        clock::advance(Duration::from_secs(10));
        ticker::tick(); sent_ticks += steps / 2 + 1; while ticker::TICKS_DONE.load(Ordering::SeqCst) < sent_ticks { std::thread::yield_now(); }
        let td = ticker::TICKS_DONE.load(Ordering::SeqCst); if td != sent_ticks { drift += 1; if drift < 5 { println!("round {round}: TICKS_DONE={td} sent={sent_ticks} steps={steps}"); } }
        std::thread::sleep(Duration::from_millis(2));
        while c.wait().is_err() { std::thread::yield_now(); }
        c.wait().unwrap();
        let snap = c.verif_snapshot();
        let sk: HashSet<u64> = snap.store.iter().map(|e| e.0).collect();
        let pk: HashSet<u64> = snap.costs.iter().map(|e| e.0).collect();
        let sum: i64 = snap.costs.iter().map(|e| e.1).sum();
        if errs.load(Ordering::SeqCst) > 0 { skipped += 1; } else if sk != pk || sum != snap.used || c.len() != sk.len() { bad_c06 += 1; if bad_c06 < 4 { println!("C06 diverge round {round}: store={sk:?} policy={pk:?} used={} sum={sum}", snap.used); } }
        if !with_clear {
            let m = &c.metrics;
            let hm = m.get_hits().unwrap() + m.get_misses().unwrap();
            let ka = m.get_keys_added().unwrap().wrapping_sub(m.get_keys_evicted().unwrap());
            let ca = m.get_cost_added().unwrap().wrapping_sub(m.get_cost_evicted().unwrap());
            if errs.load(Ordering::SeqCst) == 0 && (hm != lookups.load(Ordering::SeqCst) || ka != pk.len() as u64 || ca as i64 != snap.used || m.get_sets_dropped().unwrap() != drops.load(Ordering::SeqCst)) {
                bad_c17 += 1; if bad_c17 < 5 { println!("C17 round {round}: hits+misses={hm} lookups={} keys_added-evicted={ka} policy={} cost_added-evicted={} used={} sets_dropped={} drops={}", lookups.load(Ordering::SeqCst), pk.len(), ca as i64, snap.used, m.get_sets_dropped().unwrap(), drops.load(Ordering::SeqCst)); }
            }
        }
        let mut resident = HashSet::new();
        for k in 0..16u64 { if let Some(v) = c.get(&k) { resident.insert(*v.value()); } }
        let log = cb.0.lock().unwrap();
        let mut count: HashMap<u64, usize> = HashMap::new();
        for (kind, id) in log.iter() { *count.entry(*id).or_default() += 1; if *kind == 1 { evictions += 1; } }
        let cleared = *cleared_possible.lock().unwrap();
        for id in accepted.lock().unwrap().iter() {
            let n = count.get(id).copied().unwrap_or(0) + resident.contains(id) as usize;
            if n > 1 || (n == 0 && !cleared) { bad_c08 += 1; if bad_c08 < 6 { println!("C08 id {id}: callbacks+resident = {n} (round {round}) meta(key,ttl_ms,t_ins)={:?} now={} store={:?} policy={:?} buckets={:?}", meta.lock().unwrap().get(id), clock::get(), snap.store, snap.costs, snap.buckets); } }
        }
        hist += 1;
        let _ = c.close();
    }
    println!("clock_steps={total_steps} skipped_due_to_errors={skipped} histories={hist} evictions={evictions} C06 divergences={bad_c06} C08 anomalies={bad_c08} C17 anomalies={bad_c17}");
}
