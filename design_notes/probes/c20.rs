use std::sync::atomic::{AtomicU64, Ordering};
use std::time::Duration;
use stretto::{Cache, CacheError, TransparentKeyBuilder};
static PANICS: AtomicU64 = AtomicU64::new(0);
fn main() {
    std::panic::set_hook(Box::new(|info| { let n = PANICS.fetch_add(1, Ordering::SeqCst); if n < 5 { eprintln!("PANIC on thread {:?}: {info}", std::thread::current().name()); } }));
    let mut configs = 0u64; let mut bad = 0u64;
    for nc in (0usize..=70).chain([100, 1000]) {
        for &mc in &[0i64, 1, 2, 10, -1, -100, 1 << 62] {
            for &bs in &[0usize, 1, 2, 8] {
                for &bi in &[0usize, 1, 2, 64] {
                    let flags = (nc + bs + bi) % 4;
                    let r = Cache::<u64, u64>::builder(nc, mc).set_key_builder(TransparentKeyBuilder::<u64>::default())
                        .set_buffer_size(bs).set_buffer_items(bi).set_metrics(flags & 1 == 1).set_ignore_internal_cost(flags & 2 == 2)
                        .set_cleanup_duration(Duration::from_millis(1)).finalize();
                    configs += 1;
                    let zero = nc == 0 || mc == 0 || bs == 0;
                    match r {
                        Err(e) => { let ok = zero && matches!(e, CacheError::InvalidNumCounters | CacheError::InvalidMaxCost | CacheError::InvalidBufferSize); if !ok { bad += 1; println!("unexpected error nc={nc} mc={mc} bs={bs} bi={bi}: {e}"); } }
                        Ok(c) => {
                            if zero { bad += 1; println!("zero config accepted nc={nc} mc={mc} bs={bs}"); }
                            let before = PANICS.load(Ordering::SeqCst);
                            for i in 0..120u64 {
                                let k = i % 13;
                                let _ = c.try_insert_with_ttl(k, i, [0i64, 1, 5, 60, i64::MAX][(i % 5) as usize], if i % 3 == 0 { Duration::from_millis(1) } else { Duration::ZERO });
                                let _ = c.get(&k).map(|v| *v.value()); let _ = c.get_ttl(&k);
                                if i % 7 == 0 { let _ = c.try_remove(&k); }
                                if i % 50 == 49 { let _ = c.clear(); }
                                if i % 10 == 0 { let _ = c.wait(); }
                            }
                            std::thread::sleep(Duration::from_millis(3));
                            let w = loop { match c.wait() { Ok(()) => break true, Err(_) => { std::thread::sleep(Duration::from_millis(1)); if PANICS.load(Ordering::SeqCst) > before { break false; } } } };
                            let cl = c.close();
                            if !w || cl.is_err() || PANICS.load(Ordering::SeqCst) > before { bad += 1; if bad < 10 { println!("config nc={nc} mc={mc} bs={bs} bi={bi} flags={flags}: wait_ok={w} close={cl:?} panics={}", PANICS.load(Ordering::SeqCst) - before); } }
                        }
                    }
                }
            }
        }
    }
    println!("configs={configs} bad={bad} panics={}", PANICS.load(Ordering::SeqCst));
}
