// lockstep reference-model prototype: exact-map + TTL visibility + reclaim bounds + charges + callbacks
use std::collections::{BTreeMap, HashMap, HashSet};
use std::sync::atomic::Ordering;
use std::sync::{Arc, Mutex};
use std::time::{Duration, Instant};
use stretto::verif::{clock, ticker};
use stretto::{Cache, CacheCallback, Item, TransparentKeyBuilder};

#[derive(Default, Clone)]
struct Cb(Arc<Mutex<Vec<(u8, u64, i64)>>>); // kind 0 exit 1 evict 2 reject, id, cost
impl CacheCallback for Cb {
    type Value = u64;
    fn on_exit(&self, v: Option<u64>) { self.0.lock().unwrap().push((0, v.unwrap(), 0)); }
    fn on_evict(&self, i: Item<u64>) { self.0.lock().unwrap().push((1, i.val.unwrap(), i.cost)); }
    fn on_reject(&self, i: Item<u64>) { self.0.lock().unwrap().push((2, i.val.unwrap(), i.cost)); }
}
#[derive(Clone, Debug)]
struct Ent { id: u64, cost: i64, t_ins: u64, d: u64 }
impl Ent { fn deadline(&self) -> Option<u64> { if self.d == 0 { None } else { Some(self.t_ins + self.d) } } fn expired(&self, now: u64) -> bool { self.deadline().map_or(false, |dl| now >= dl) } }

fn tick_and_wait() { let before = ticker::TICKS_DONE.load(Ordering::SeqCst); ticker::tick(); let t0 = Instant::now(); while ticker::TICKS_DONE.load(Ordering::SeqCst) == before { if t0.elapsed() > Duration::from_secs(10) { panic!("tick watchdog"); } std::thread::yield_now(); } }

fn main() {
    let rounds: u64 = std::env::args().nth(1).and_then(|s| s.parse().ok()).unwrap_or(400);
    let mut rng = 0x853c49e6748fea9bu64; let mut next = move || { rng ^= rng << 13; rng ^= rng >> 7; rng ^= rng << 17; rng };
    let mut st: BTreeMap<&'static str, u64> = BTreeMap::new(); let mut fails = 0u64;
    const NS: u64 = 1_000_000_000;
    for round in 0..rounds {
        let interval_ns = [100u64, 250, 500, 1000, 2000, 3000, 5000][(round % 7) as usize] * 1_000_000;
        let internal = round % 2 == 1; let nkeys = 2 + next() % 9;
        let cost_of = |k: u64| 1 + (k * 7) % 5;
        clock::set(1_700_000_000 * NS + next() % NS);
        ticker::arm_manual();
        let cb = Cb::default();
        let probe: Cache<u64, u64, TransparentKeyBuilder<u64>> = Cache::builder(10, 10).set_key_builder(TransparentKeyBuilder::<u64>::default()).finalize().unwrap(); let _ = probe.close(); // keeps ARMED semantics simple: re-arm
        ticker::arm_manual();
        let overhead: i64 = if internal { 56 } else { 0 }; // checked against the first charge below
        let max_cost: i64 = (0..nkeys).map(|k| cost_of(k) as i64 + overhead).sum();
        let c: Cache<u64, u64, TransparentKeyBuilder<u64>, _, _, Cb> = Cache::builder(1000, max_cost).set_key_builder(TransparentKeyBuilder::<u64>::default()).set_callback(cb.clone()).set_ignore_internal_cost(!internal).set_metrics(true).set_cleanup_duration(Duration::from_nanos(interval_ns)).finalize().unwrap();
        let mut model: HashMap<u64, Ent> = HashMap::new(); // resident (incl. expired not yet swept)
        let mut reclaimed_expect: HashMap<u64, (u64, i64)> = HashMap::new(); // id -> (deadline, charge) of TTL entries that must end via on_evict
        let mut exited: HashSet<u64> = HashSet::new(); let mut idc = round << 32; let mut cb_seen = 0usize;
        let mut next_tick = clock::get() + next() % interval_ns;
        let mut fail = |m: String| { fails += 1; if fails < 12 { println!("round {round} (I={}ms internal={internal} keys={nkeys}): {m}", interval_ns / 1_000_000); } };
        for _step in 0..(40 + next() % 80) {
            let now = clock::get();
            let k = next() % nkeys; let op = next() % 12;
            match op {
                0..=3 => { // insert with/without ttl
                    idc += 1; let id = idc; let d = match next() % 4 { 0 => 0, 1 => 1 + next() % (3 * NS), 2 => NS * (1 + next() % 3), _ => 1_000_000 * (1 + next() % 2500) };
                    let r = c.insert_with_ttl(k, id, cost_of(k) as i64, Duration::from_nanos(d)); c.wait().unwrap(); *st.entry("insert").or_default() += 1;
                    if !r { fail(format!("insert({k}) returned false below capacity")); }
                    if let Some(old) = model.insert(k, Ent { id, cost: cost_of(k) as i64 + overhead, t_ins: now, d }) { exited.insert(old.id); reclaimed_expect.remove(&old.id); }
                    if d > 0 { reclaimed_expect.insert(id, (now + d, cost_of(k) as i64 + overhead)); }
                }
                4 => { idc += 1; let id = idc; let r = c.insert_if_present(k, id, cost_of(k) as i64); c.wait().unwrap(); *st.entry("if_present").or_default() += 1;
                    match model.get(&k).cloned() { None => { if r { fail(format!("insert_if_present({k}) created an entry")); } }
                        Some(e) if e.expired(now) => { *st.entry("if_present_on_expired_unswept").or_default() += 1; if r { exited.insert(e.id); reclaimed_expect.remove(&e.id); model.insert(k, Ent { id, cost: e.cost, t_ins: now, d: 0 }); } }
                        Some(e) => { if !r { fail(format!("insert_if_present({k}) on resident returned false")); } exited.insert(e.id); reclaimed_expect.remove(&e.id); model.insert(k, Ent { id, cost: e.cost, t_ins: now, d: 0 }); } } }
                5 => { c.remove(&k); c.wait().unwrap(); *st.entry("remove").or_default() += 1; if let Some(e) = model.remove(&k) { exited.insert(e.id); reclaimed_expect.remove(&e.id); } }
                6 => { if next() % 6 == 0 { c.clear().unwrap(); c.wait().unwrap(); *st.entry("clear").or_default() += 1; model.clear(); reclaimed_expect.clear(); cb_seen = cb.0.lock().unwrap().len();
                        let m = &c.metrics; let all = [m.get_hits(), m.get_misses(), m.get_keys_added(), m.get_keys_updated(), m.get_keys_evicted(), m.get_cost_added(), m.get_cost_evicted(), m.get_sets_dropped(), m.get_sets_rejected(), m.get_gets_dropped(), m.get_gets_kept()];
                        if all.iter().any(|x| *x != Some(0)) { fail(format!("metrics not zero after clear: {all:?}")); } if c.len() != 0 { fail("len != 0 after clear".into()); } } }
                _ => { // advance time, delivering ticks exactly at their instants
                    let target = now + match next() % 4 { 0 => 1 + next() % 1000, 1 => next() % (NS / 2), 2 => NS - now % NS + (next() % 3), _ => next() % (3 * NS) };
                    loop { if next_tick <= target { clock::set(next_tick); let t = next_tick; next_tick += interval_ns; tick_and_wait(); *st.entry("ticks").or_default() += 1;
                            // reclaim oracle at tick time t
                            let snap = c.verif_snapshot(); let resident: HashSet<u64> = snap.store.iter().map(|e| e.0).collect(); let charged: HashMap<u64, i64> = snap.costs.iter().cloned().collect();
                            if resident != charged.keys().cloned().collect() { fail(format!("store/policy differ at tick: {resident:?} vs {:?}", charged.keys())); }
                            if snap.used != charged.values().sum::<i64>() { fail("used != sum".into()); }
                            let log = cb.0.lock().unwrap().clone();
                            for (kind, id, cost) in &log[cb_seen..] { match kind { 1 => { match reclaimed_expect.remove(id) { Some((dl, ch)) => { *st.entry("reclaimed").or_default() += 1; if dl > t { fail(format!("entry {id:#x} reclaimed early: deadline {dl} tick {t}")); } if *cost != ch { fail(format!("on_evict cost {cost} != charge {ch}")); } let kk = model.iter().find(|(_, e)| e.id == *id).map(|(k, _)| *k); if let Some(kk) = kk { model.remove(&kk); } } None => fail(format!("on_evict for id {id:#x} that is not an expired TTL entry (or twice)")) } } 0 => { if !exited.remove(id) { fail(format!("unexpected on_exit({id:#x})")); } } _ => fail(format!("on_reject({id:#x}) below capacity")) } }
                            cb_seen = log.len();
                            for (id, (dl, _)) in reclaimed_expect.iter() { if dl + NS + interval_ns <= t { fail(format!("entry {id:#x} deadline {dl} not reclaimed by tick {t} (bound {})", dl + NS + interval_ns)); } }
                            for (kk, e) in model.iter() { if !resident.contains(kk) { fail(format!("model-resident key {kk} (id {:#x}, expired={}) missing from store", e.id, e.expired(t))); } }
                        } else { clock::set(target); break; } }
                    *st.entry("advance").or_default() += 1;
                }
            }
            // exact-map check over the whole universe at the current instant
            let now = clock::get();
            for q in 0..nkeys {
                let got = c.get(&q).map(|v| *v.value()); let ttl = c.get_ttl(&q); *st.entry("lookups").or_default() += 1;
                match model.get(&q) { Some(e) if !e.expired(now) => { if got != Some(e.id) { fail(format!("get({q}) = {got:?}, model {:#x}", e.id)); } let want = if e.d == 0 { Duration::MAX } else { Duration::from_nanos(e.t_ins + e.d - now) }; if ttl != Some(want) { fail(format!("get_ttl({q}) = {ttl:?}, model {want:?}")); } }
                    _ => { if got.is_some() || ttl.is_some() { fail(format!("get({q}) = {got:?} ttl {ttl:?}, model absent/expired")); } } }
            }
            let snap = c.verif_snapshot(); for (kk, ch) in snap.costs.iter() { if let Some(e) = model.get(kk) { if *ch != e.cost { fail(format!("charge of key {kk} = {ch}, model {}", e.cost)); } } else { fail(format!("charged key {kk} not in model")); } }
            if snap.used > max_cost { fail(format!("used {} > max {max_cost}", snap.used)); }
        }
        *st.entry("histories").or_default() += 1;
        c.close().unwrap();
    }
    println!("{st:?} failures={fails}");
}
