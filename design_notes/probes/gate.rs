use std::collections::HashSet;
use std::sync::Arc;
use std::time::Duration;
use stretto::verif::sched;
use stretto::{Cache, TransparentKeyBuilder};
fn main() {
    let mut div = 0; let mut survivors = 0; let mut blocked = 0;
    let rounds: u64 = std::env::args().nth(1).and_then(|s| s.parse().ok()).unwrap_or(50);
    for round in 0..rounds {
        let c: Arc<Cache<u64, u64, TransparentKeyBuilder<u64>>> = Arc::new(Cache::builder(1000, 100)
            .set_key_builder(TransparentKeyBuilder::<u64>::default()).set_ignore_internal_cost(true).finalize().unwrap());
        c.insert(1, 1, 1); c.wait().unwrap();
        let g = sched::Gate::new();
        sched::arm("handle_item:new:after_policy_add", g.clone());
        c.insert(2, 2, 1);           // processor will stop after policy.add(2)
        g.wait_arrival();
        let c2 = c.clone();
        let h = std::thread::spawn(move || c2.clear().unwrap());
        std::thread::sleep(Duration::from_millis(20));
        if !h.is_finished() { blocked += 1; }   // legal once clear waits for the processor
        g.open();
        h.join().unwrap();
        c.wait().unwrap();
        let snap = c.verif_snapshot();
        let sk: HashSet<u64> = snap.store.iter().map(|e| e.0).collect();
        let pk: HashSet<u64> = snap.costs.iter().map(|e| e.0).collect();
        if sk != pk { div += 1; if div == 1 { println!("round {round}: store={sk:?} policy={pk:?}"); } }
        if !sk.is_empty() { survivors += 1; }
        sched::disarm_all();
        c.close().unwrap();
    }
    println!("gated clear-between-admission-and-insert: divergences={div}/50 survivors={survivors}/50 clear_blocked_until_release={blocked}/50");
}
