use std::collections::HashMap;
use std::sync::atomic::{AtomicU64, Ordering};
use std::sync::{Arc, Mutex};
use stretto::{Cache, CacheCallback, TransparentKeyBuilder};
use std::cell::RefCell;
thread_local! { static EXITS: RefCell<Vec<u64>> = RefCell::new(Vec::new()); }
#[derive(Clone, Default)] struct Cb;
impl CacheCallback for Cb { type Value = u64; fn on_exit(&self, v: Option<u64>) { EXITS.with(|e| e.borrow_mut().push(v.unwrap())); } fn on_evict(&self, _i: stretto::Item<u64>) {} fn on_reject(&self, _i: stretto::Item<u64>) {} }
static CLK: AtomicU64 = AtomicU64::new(1);
fn now() -> u64 { CLK.fetch_add(1, Ordering::SeqCst) }
fn main() {
    let with_clear = std::env::args().nth(1).map(|s| s == "clear").unwrap_or(false);
    let (mut batches, mut checked, mut skipped, mut bad, mut wait_err) = (0u64, 0u64, 0u64, 0u64, 0u64);
    for round in 0..200u64 {
        let c: Arc<Cache<u64, u64, TransparentKeyBuilder<u64>, _, _, Cb>> = Arc::new(Cache::builder(10_000, 1_000_000).set_key_builder(TransparentKeyBuilder::<u64>::default()).set_callback(Cb).set_ignore_internal_cost(true).set_buffer_size(if round % 2 == 0 { 16 } else { 4096 }).finalize().unwrap());
        let clears: Arc<Mutex<Vec<(u64, u64)>>> = Arc::new(Mutex::new(vec![]));
        let res: Arc<Mutex<(u64, u64, u64, u64, u64)>> = Arc::new(Mutex::new((0, 0, 0, 0, 0)));
        let mut hs = vec![];
        for t in 0..4u64 {
            let c = c.clone(); let clears = clears.clone(); let res = res.clone();
            hs.push(std::thread::spawn(move || {
                let mut r = round * 6151 + t * 389 + 7; let mut idc = 0u64; let mut cur: HashMap<u64, Option<u64>> = HashMap::new(); let mut unknown: std::collections::HashSet<u64> = Default::default(); let mut tainted: std::collections::HashSet<u64> = Default::default();
                for _ in 0..25 {
                    let t0 = now();
                    let mut last: HashMap<u64, Option<u64>> = HashMap::new(); // key -> Some(id) inserted / None removed
                    let mut errs = false;
                    for _ in 0..(1 + r % 6) {
                        r ^= r << 13; r ^= r >> 7; r ^= r << 17;
                        let k = t * 1000 + r % 8;
                        if (r >> 9) % 3 != 0 { idc += 1; let id = (t << 40) | idc; EXITS.with(|e| e.borrow_mut().clear()); match c.try_insert(k, id, 1) { Ok(true) => { let upd = EXITS.with(|e| !e.borrow().is_empty()); let e = cur.entry(k).or_insert(None); if upd { *e = Some(id); } else if e.is_none() { *e = Some(id); } /* else: buffered New for a charged key is refused */ last.insert(k, *e); } Ok(false) => { last.insert(k, *cur.entry(k).or_insert(None)); } Err(_) => { errs = true; tainted.insert(k); } } }
                        else { if c.try_remove(&k).is_err() { errs = true; tainted.insert(k); } cur.insert(k, None); last.insert(k, None); }
                    }
                    if with_clear && t == 0 && (r >> 20) % 5 == 0 { let a = now(); let idx = { let mut g = clears.lock().unwrap(); g.push((a, u64::MAX)); g.len() - 1 }; let _ = c.clear(); clears.lock().unwrap()[idx].1 = now(); }
                    let w = c.wait();
                    let mut g = res.lock().unwrap(); g.0 += 1;
                    if w.is_err() { g.4 += 1; continue; }
                    let snap = c.verif_snapshot(); let got: HashMap<u64, Option<u64>> = last.keys().map(|k| (*k, c.get(k).map(|v| *v.value()))).collect();
                    let t1 = now();
                    if errs || clears.lock().unwrap().iter().any(|(a, b)| *a <= t1 && *b >= t0) { g.2 += 1; for k in last.keys() { unknown.insert(*k); } for k in cur.keys() { unknown.insert(*k); } continue; }
                    if last.keys().any(|k| unknown.contains(k)) { g.2 += 1; for (k, _) in last.iter() { cur.insert(*k, got[k]); unknown.remove(k); } continue; }
                    // a clear may also START after we sampled `clears` but overlap the reads; re-check by taking the clear log again is not possible here: conservative skip if any clear began before t1
                    g.1 += 1;
                    let charged: std::collections::HashSet<u64> = snap.costs.iter().map(|e| e.0).collect();
                    for (k, want) in last { if tainted.contains(&k) { continue; } match want { Some(id) => { if got[&k] != Some(id) || !charged.contains(&k) { g.3 += 1; println!("round {round} t{t}: after wait() key {k} expected {id:#x} got {:?} charged={}", got[&k], charged.contains(&k)); } } None => { if got[&k].is_some() || charged.contains(&k) { g.3 += 1; println!("round {round} t{t}: after wait() removed key {k} still present {:?} charged={}", got[&k], charged.contains(&k)); } } } }
                }
            }));
        }
        for h in hs { h.join().unwrap(); }
        let g = res.lock().unwrap(); batches += g.0; checked += g.1; skipped += g.2; bad += g.3; wait_err += g.4;
        let _ = c.close();
    }
    println!("batches={batches} barrier_checks={checked} skipped(clear/err)={skipped} wait_err={wait_err} violations={bad}");
}
