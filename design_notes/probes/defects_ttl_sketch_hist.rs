use std::sync::{Arc, Mutex};
use std::time::Duration;
use stretto::{Cache, CacheCallback, Item, TransparentKeyBuilder};

#[derive(Default, Clone)]
struct Cb(Arc<Mutex<Vec<(String, u64, u64, i64)>>>);
impl CacheCallback for Cb {
    type Value = u64;
    fn on_exit(&self, v: Option<u64>) { self.0.lock().unwrap().push(("exit".into(), 0, v.unwrap_or(0), 0)); }
    fn on_evict(&self, i: Item<u64>) { self.0.lock().unwrap().push(("evict".into(), i.index, i.val.unwrap_or(0), i.cost)); }
    fn on_reject(&self, i: Item<u64>) { self.0.lock().unwrap().push(("reject".into(), i.index, i.val.unwrap_or(0), i.cost)); }
}

fn mk(cleanup_ms: u64, cb: Cb) -> Cache<u64, u64, TransparentKeyBuilder<u64>, stretto::DefaultCoster<u64>, stretto::DefaultUpdateValidator<u64>, Cb> {
    Cache::builder(1000, 1_000_000)
        .set_key_builder(TransparentKeyBuilder::<u64>::default())
        .set_callback(cb)
        .set_ignore_internal_cost(true)
        .set_metrics(true)
        .set_cleanup_duration(Duration::from_millis(cleanup_ms))
        .finalize()
        .unwrap()
}

fn d2_ttl_to_nottl() {
    let cb = Cb::default();
    let c = mk(200, cb.clone());
    c.insert_with_ttl(1, 11, 1, Duration::from_secs(30));
    c.wait().unwrap();
    c.insert(1, 12, 1); // no TTL now
    c.wait().unwrap();
    std::thread::sleep(Duration::from_millis(2500));
    println!("D2 ttl->nottl: get(1)={:?} len={} cbs={:?}", c.get(&1).map(|v| *v.value()), c.len(), cb.0.lock().unwrap());
}

fn d1_bucket_wipe() {
    let cb = Cb::default();
    let c = mk(200, cb.clone());
    // two keys with same expiry second
    c.insert_with_ttl(1, 11, 1, Duration::from_secs(2));
    c.insert_with_ttl(2, 22, 1, Duration::from_secs(2));
    c.wait().unwrap();
    // update key 2 to a far TTL: moves bucket -> wipes old bucket (with key 1)
    c.insert_with_ttl(2, 23, 1, Duration::from_secs(60));
    c.wait().unwrap();
    std::thread::sleep(Duration::from_millis(4000));
    println!("D1 bucket wipe: get(1)={:?} len={} (expect len 1) cbs={:?}", c.get(&1).map(|v| *v.value()), c.len(), cb.0.lock().unwrap());
}

fn d3_default_interval() {
    let cb = Cb::default();
    let c: Cache<u64, u64, TransparentKeyBuilder<u64>, _, _, Cb> = Cache::builder(1000, 1_000_000)
        .set_key_builder(TransparentKeyBuilder::<u64>::default())
        .set_callback(cb.clone())
        .set_ignore_internal_cost(true)
        .finalize().unwrap();
    for k in 0..8u64 {
        c.insert_with_ttl(k, k, 1, Duration::from_millis(500 + 500 * k));
    }
    c.wait().unwrap();
    std::thread::sleep(Duration::from_millis(9000));
    println!("D3 default interval: len={} (expect 0) evicts={}", c.len(), cb.0.lock().unwrap().len());
}

fn d5_one_counter() {
    let c: Cache<u64, u64, TransparentKeyBuilder<u64>> = Cache::builder(1, 10)
        .set_key_builder(TransparentKeyBuilder::<u64>::default())
        .set_ignore_internal_cost(true)
        .set_buffer_items(1)
        .finalize().unwrap();
    for k in 0..30u64 { c.try_insert(k, k, 1).ok(); let _ = c.get(&k); }
    std::thread::sleep(Duration::from_millis(300));
    println!("D5 num_counters=1: wait={:?}", c.wait());
}

fn d6_histogram() {
    let cb = Cb::default();
    let c: Cache<u64, u64, TransparentKeyBuilder<u64>, _, _, Cb> = Cache::builder(1000, 5)
        .set_key_builder(TransparentKeyBuilder::<u64>::default())
        .set_callback(cb.clone())
        .set_ignore_internal_cost(true)
        .set_metrics(true)
        .finalize().unwrap();
    for k in 0..50u64 { c.insert(k, k, 1); c.wait().unwrap(); }
    println!("D6 histogram: evicted={:?} hist={}", c.metrics.get_keys_evicted(), c.metrics.life_expectancy_seconds().unwrap());
}

fn main() {
    let which = std::env::args().nth(1).unwrap_or_default();
    match which.as_str() {
        "d1" => d1_bucket_wipe(),
        "d2" => d2_ttl_to_nottl(),
        "d3" => d3_default_interval(),
        "d5" => d5_one_counter(),
        "d6" => d6_histogram(),
        _ => { d1_bucket_wipe(); d2_ttl_to_nottl(); d3_default_interval(); d6_histogram(); d5_one_counter(); }
    }
}
