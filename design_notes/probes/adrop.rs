use std::sync::atomic::{AtomicUsize, Ordering};
use std::time::Duration;
use futures::future::BoxFuture;
use stretto::{AsyncCache, TransparentKeyBuilder};
static LIVE: AtomicUsize = AtomicUsize::new(0);
static STARTED: AtomicUsize = AtomicUsize::new(0);
fn sp(f: BoxFuture<'static, ()>) -> tokio::task::JoinHandle<()> {
    STARTED.fetch_add(1, Ordering::SeqCst); LIVE.fetch_add(1, Ordering::SeqCst);
    tokio::spawn(async move { f.await; LIVE.fetch_sub(1, Ordering::SeqCst); })
}
#[tokio::main(flavor = "multi_thread", worker_threads = 4)]
async fn main() {
    for _ in 0..20 {
        let c: AsyncCache<u64, u64, TransparentKeyBuilder<u64>> = AsyncCache::builder(1000, 100).set_key_builder(TransparentKeyBuilder::<u64>::default()).finalize(sp).unwrap();
        c.insert(1, 1, 1).await; let c2 = c.clone(); drop(c); drop(c2);
    }
    tokio::time::sleep(Duration::from_millis(500)).await;
    println!("drop w/o close: started={} live={}", STARTED.load(Ordering::SeqCst), LIVE.load(Ordering::SeqCst));
    for _ in 0..20 {
        let c: AsyncCache<u64, u64, TransparentKeyBuilder<u64>> = AsyncCache::builder(1000, 100).set_key_builder(TransparentKeyBuilder::<u64>::default()).finalize(sp).unwrap();
        c.insert(1, 1, 1).await; c.close().await.unwrap(); 
        println!("after close ops: insert={} get={:?} remove={:?} clear={:?} wait={:?} close={:?}", c.insert(2,2,1).await, c.get(&1).await.map(|v| *v.value()), c.try_remove(&1).await, c.clear().await, c.wait().await, c.close().await);
        break;
    }
    tokio::time::sleep(Duration::from_millis(300)).await;
    println!("after close: started={} live={}", STARTED.load(Ordering::SeqCst), LIVE.load(Ordering::SeqCst));
}
