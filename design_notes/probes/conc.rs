use std::sync::atomic::{AtomicBool, AtomicU64, Ordering};
use std::sync::Arc;
use std::time::{Duration, Instant};
use stretto::{Cache, TransparentKeyBuilder};

type C = Cache<u64, u64, TransparentKeyBuilder<u64>>;
fn mk(buf: usize) -> C {
    Cache::builder(1000, 1_000_000)
        .set_key_builder(TransparentKeyBuilder::<u64>::default())
        .set_ignore_internal_cost(true)
        .set_buffer_size(buf)
        .finalize()
        .unwrap()
}

// D7: clear() with buffered work: entries inserted before clear() survive it
fn clear_race(iters: usize) {
    let mut survivors = 0; let mut runs = 0;
    for _ in 0..iters {
        let c = mk(4096);
        for k in 0..200u64 { c.insert(k, k, 1); }
        c.clear().unwrap();
        c.wait().unwrap();
        let n = c.len();
        runs += 1;
        if n > 0 { survivors += 1; }
        c.close().ok();
    }
    println!("D7 clear race: {survivors}/{runs} runs had pre-clear entries resident after clear()+wait()");
}

// D8: wait() racing close()
fn wait_close(iters: usize) {
    let mut hangs = 0;
    for i in 0..iters {
        let c = Arc::new(mk(64));
        let done = Arc::new(AtomicBool::new(false));
        let mut hs = vec![];
        for _ in 0..4 {
            let c2 = c.clone(); let d2 = done.clone();
            hs.push(std::thread::spawn(move || { for k in 0..50u64 { let _ = c2.try_insert(k, k, 1); let _ = c2.wait(); } d2.store(true, Ordering::SeqCst); }));
        }
        std::thread::sleep(Duration::from_micros(50 * (i as u64 % 20)));
        let _ = c.close();
        let t0 = Instant::now();
        let mut hung = false;
        for h in hs { 
            while !h.is_finished() { if t0.elapsed() > Duration::from_secs(3) { hung = true; break; } std::thread::sleep(Duration::from_millis(1)); }
            if hung { break; }
        }
        if hung { hangs += 1; }
    }
    println!("D8 wait vs close: {hangs}/{iters} runs left a waiter blocked >3s");
}

// get_ttl recursive read lock vs writer
fn get_ttl_deadlock() {
    let c = Arc::new(mk(4096));
    let progress = Arc::new(AtomicU64::new(0));
    let stop = Arc::new(AtomicBool::new(false));
    c.insert_with_ttl(256, 1, 1, Duration::from_secs(100)); c.wait().unwrap();
    let mut hs = vec![];
    for t in 0..4 {
        let c2 = c.clone(); let p = progress.clone(); let s = stop.clone();
        hs.push(std::thread::spawn(move || { while !s.load(Ordering::Relaxed) { let _ = c2.get_ttl(&256); let _ = c2.get_ttl(&(256 * (t + 2))); p.fetch_add(1, Ordering::Relaxed); } }));
    }
    for t in 0..2 {
        let c2 = c.clone(); let p = progress.clone(); let s = stop.clone();
        hs.push(std::thread::spawn(move || { let mut i = 0u64; while !s.load(Ordering::Relaxed) { i += 1; let _ = c2.try_insert_with_ttl(256 * (1 + (i % 8)), i, 1, Duration::from_secs(100)); if t == 1 { let _ = c2.try_remove(&(256 * (1 + (i % 8)))); } p.fetch_add(1, Ordering::Relaxed); } }));
    }
    let mut last = 0; let mut stalled = 0;
    for _ in 0..50 {
        std::thread::sleep(Duration::from_millis(100));
        let now = progress.load(Ordering::Relaxed);
        if now == last { stalled += 1; } else { stalled = 0; }
        last = now;
        if stalled >= 10 { println!("get_ttl: DEADLOCK (no progress for 1s at {now} ops)"); std::process::exit(0); }
    }
    stop.store(true, Ordering::Relaxed);
    println!("get_ttl: no deadlock in 5s, {last} ops");
    std::process::exit(0);
}

fn main() {
    match std::env::args().nth(1).unwrap_or_default().as_str() {
        "clear" => clear_race(200),
        "waitclose" => wait_close(300),
        "getttl" => get_ttl_deadlock(),
        _ => {}
    }
}
