use std::sync::atomic::Ordering;
use std::sync::{Arc, Mutex};
use std::time::{Duration, Instant};
use stretto::verif::{aticker, clock, ticker};
use stretto::{AsyncCache, CacheCallback, Item, TransparentKeyBuilder};
#[derive(Default, Clone)]
struct Cb(Arc<Mutex<Vec<(u64, u64, i64)>>>);
impl CacheCallback for Cb { type Value = u64; fn on_exit(&self, _v: Option<u64>) {} fn on_evict(&self, i: Item<u64>) { self.0.lock().unwrap().push((i.index, i.val.unwrap_or(0), i.cost)); } }
async fn tick_and_wait() { let before = ticker::TICKS_DONE.load(Ordering::SeqCst); aticker::tick(); let t0 = Instant::now(); while ticker::TICKS_DONE.load(Ordering::SeqCst) == before { if t0.elapsed() > Duration::from_secs(10) { panic!("tick watchdog"); } tokio::task::yield_now().await; } }
async fn run() {
    let t_start = Instant::now();
    let (mut histories, mut ops, mut late, mut early) = (0u64, 0u64, 0u64, 0u64);
    let intervals_ms = [100u64, 500, 1000, 2000, 3000];
    let mut rng = 0x9e3779b97f4a7c15u64; let mut next = move || { rng ^= rng << 13; rng ^= rng >> 7; rng ^= rng << 17; rng };
    for round in 0..200u64 {
        let interval = Duration::from_millis(intervals_ms[(round % 5) as usize]);
        clock::set(1_700_000_000_000_000_000 + (next() % 1_000_000_000));
        aticker::arm_manual();
        let cb = Cb::default();
        let c: AsyncCache<u64, u64, TransparentKeyBuilder<u64>, _, _, Cb> = AsyncCache::builder(1000, 1_000_000).set_key_builder(TransparentKeyBuilder::<u64>::default()).set_callback(cb.clone()).set_ignore_internal_cost(true).set_cleanup_duration(interval).finalize(tokio::spawn).unwrap();
        let mut model: std::collections::HashMap<u64, u64> = Default::default();
        let mut next_tick = clock::get() + (next() % interval.as_nanos() as u64);
        let end = clock::get() + 12_000 * 1_000_000; let mut k = 0u64;
        while clock::get() < end {
            if next() % 3 != 0 { k += 1; let ttl = 1 + next() % 4000; let now = clock::get(); c.insert_with_ttl(k, k, 1, Duration::from_millis(ttl)).await; model.insert(k, now + ttl * 1_000_000); ops += 1; }
            c.wait().await.unwrap();
            let now = clock::advance(Duration::from_nanos(1 + next() % 300_000_000));
            while next_tick <= now {
                tick_and_wait().await; next_tick += interval.as_nanos() as u64;
                let snap = c.verif_snapshot(); let resident: std::collections::HashSet<u64> = snap.store.iter().map(|e| e.0).collect();
                for (key, dl) in model.iter() { let bound = dl + 1_000_000_000 + interval.as_nanos() as u64 + 300_000_000; if now >= bound && resident.contains(key) { late += 1; } if now < *dl && !resident.contains(key) { early += 1; } }
            }
        }
        histories += 1; c.close().await.unwrap();
    }
    println!("async histories={histories} inserts={ops} late={late} early={early} wall={:?}", t_start.elapsed());
}
fn main() {
    let flavor = std::env::args().nth(1).unwrap_or_default();
    if flavor == "ct" { tokio::runtime::Builder::new_current_thread().enable_all().build().unwrap().block_on(run()) } else { tokio::runtime::Builder::new_multi_thread().worker_threads(4).enable_all().build().unwrap().block_on(run()) }
}
