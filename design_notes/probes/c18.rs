use std::collections::HashMap;
use std::time::Duration;
use stretto::{Cache, KeyBuilder};
struct Coll;
impl KeyBuilder for Coll {
    type Key = u64;
    fn hash_index<Q>(&self, key: &Q) -> u64 where u64: core::borrow::Borrow<Q>, Q: core::hash::Hash + Eq + ?Sized { let mut h = stretto::TransparentHasher::default(); key.hash(&mut h); use std::hash::Hasher; h.finish() % 4 }
    fn hash_conflict<Q>(&self, key: &Q) -> u64 where u64: core::borrow::Borrow<Q>, Q: core::hash::Hash + Eq + ?Sized { let mut h = stretto::TransparentHasher::default(); key.hash(&mut h); use std::hash::Hasher; h.finish() + 1 }
}
fn main() {
    let mut rng = 0x1234567u64; let mut next = move || { rng ^= rng << 13; rng ^= rng >> 7; rng ^= rng << 17; rng };
    let (mut hist, mut ops, mut foreign, mut lost) = (0u64, 0u64, 0u64, 0u64);
    for _ in 0..300 {
        let c: Cache<u64, u64, Coll> = Cache::builder(1000, 1000).set_key_builder(Coll).set_ignore_internal_cost(true).finalize().unwrap();
        // owner[index] = key currently owning the slot (model), val[key] = value
        let mut owner: HashMap<u64, (u64, u64)> = HashMap::new();
        for step in 0..80u64 {
            let k = next() % 12; let idx = k % 4; ops += 1;
            match next() % 6 {
                0 | 1 => { let v = (k << 32) | step; let r = c.insert_with_ttl(k, v, 1, if next() % 2 == 0 { Duration::ZERO } else { Duration::from_secs(3600) }); c.wait().unwrap();
                    match owner.get(&idx) { Some((ok, _)) if *ok != k => { /* other key owns the slot: must not be disturbed */ } _ => { if r { owner.insert(idx, (k, v)); } } } }
                2 => { c.remove(&k); c.wait().unwrap(); if let Some((ok, _)) = owner.get(&idx) { if *ok == k { owner.remove(&idx); } } }
                3 => { let r = c.insert_if_present(k, (k << 32) | step | (1 << 31), 1); c.wait().unwrap(); if let Some((ok, v)) = owner.get_mut(&idx) { if *ok == k && r { *v = (k << 32) | step | (1 << 31); } } }
                4 => { if let Some(mut m) = c.get_mut(&k) { let cur = *m.value(); if cur >> 32 != k { foreign += 1; println!("get_mut({k}) exposed value of key {}", cur >> 32); } *m.value_mut() = cur | (1 << 30); drop(m); if let Some((ok, v)) = owner.get_mut(&idx) { if *ok == k { *v |= 1 << 30; } } } }
                _ => { let _ = c.get_ttl(&k); }
            }
            for q in 0..12u64 {
                let got = c.get(&q).map(|v| *v.value());
                if let Some(g) = got { if g >> 32 != q { foreign += 1; println!("get({q}) returned value of key {}", g >> 32); } }
                match owner.get(&(q % 4)) { Some((ok, v)) if *ok == q => { if got != Some(*v) { lost += 1; if lost < 6 { println!("key {q}: expected {v:#x} got {got:?} after op on key {k}"); } } } _ => { if got.is_some() { lost += 1; if lost < 6 { println!("key {q}: unexpected {got:?}"); } } } }
            }
        }
        hist += 1; c.close().unwrap();
    }
    println!("histories={hist} ops={ops} foreign_values={foreign} model_mismatches={lost}");
}
