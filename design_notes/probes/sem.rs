use std::sync::{Arc, Mutex};
use std::time::Duration;
use stretto::{Cache, CacheCallback, Item, TransparentKeyBuilder};

#[derive(Default, Clone)]
struct Cb(Arc<Mutex<Vec<(String, u64, u64, i64)>>>);
impl CacheCallback for Cb {
    type Value = u64;
    fn on_exit(&self, v: Option<u64>) { self.0.lock().unwrap().push(("exit".into(), 0, v.unwrap_or(0), 0)); }
    fn on_evict(&self, i: Item<u64>) { self.0.lock().unwrap().push(("evict".into(), i.index, i.val.unwrap_or(0), i.cost)); }
    fn on_reject(&self, i: Item<u64>) { self.0.lock().unwrap().push(("reject".into(), i.index, i.val.unwrap_or(0), i.cost)); }
}
fn threads() -> usize { std::fs::read_dir("/proc/self/task").unwrap().count() }

fn main() {
    let which = std::env::args().nth(1).unwrap_or_default();
    let cb = Cb::default();
    match which.as_str() {
        "overflow" => {
            let c: Cache<u64, u64, TransparentKeyBuilder<u64>, _, _, Cb> = Cache::builder(1000, 100)
                .set_key_builder(TransparentKeyBuilder::<u64>::default()).set_callback(cb.clone()).set_metrics(true).finalize().unwrap();
            println!("insert huge -> {}", c.insert(1, 1, i64::MAX));
            std::thread::sleep(Duration::from_millis(200));
            println!("wait -> {:?}", c.wait());
            println!("len={} get={:?} cbs={:?} cost_added={:?}", c.len(), c.get(&1).map(|v| *v.value()), cb.0.lock().unwrap(), c.metrics.get_cost_added());
        }
        "ifpresent_expired" => {
            let c: Cache<u64, u64, TransparentKeyBuilder<u64>, _, _, Cb> = Cache::builder(1000, 100000)
                .set_key_builder(TransparentKeyBuilder::<u64>::default()).set_callback(cb.clone())
                .set_cleanup_duration(Duration::from_secs(3600)).finalize().unwrap();
            c.insert_with_ttl(1, 11, 1, Duration::from_millis(300)); c.wait().unwrap();
            std::thread::sleep(Duration::from_millis(500));
            println!("get expired -> {:?}, len={}", c.get(&1).map(|v| *v.value()), c.len());
            println!("insert_if_present on expired-unswept -> {}", c.insert_if_present(1, 12, 1));
            c.wait().unwrap();
            println!("get after -> {:?} ttl={:?}", c.get(&1).map(|v| *v.value()), c.get_ttl(&1));
        }
        "closers" => {
            for round in 0..200 {
                let c: Arc<Cache<u64, u64, TransparentKeyBuilder<u64>>> = Arc::new(Cache::builder(1000, 100)
                    .set_key_builder(TransparentKeyBuilder::<u64>::default()).finalize().unwrap());
                for k in 0..20 { c.insert(k, k, 1); }
                let hs: Vec<_> = (0..4).map(|_| { let c = c.clone(); std::thread::spawn(move || format!("{:?}", c.close())) }).collect();
                let t0 = std::time::Instant::now();
                for h in hs { while !h.is_finished() { if t0.elapsed() > Duration::from_secs(3) { println!("round {round}: closer HUNG"); std::process::exit(1); } std::thread::yield_now(); } let r = h.join().unwrap(); if round < 3 { println!("close -> {r}"); } }
            }
            std::thread::sleep(Duration::from_millis(100));
            println!("200 rounds of 4 concurrent closers ok; threads now {}", threads());
        }
        "drop" => {
            let base = threads();
            for _ in 0..50 {
                let c: Cache<u64, u64, TransparentKeyBuilder<u64>> = Cache::builder(1000, 100).set_key_builder(TransparentKeyBuilder::<u64>::default()).finalize().unwrap();
                c.insert(1, 1, 1); let c2 = c.clone(); drop(c); drop(c2);
            }
            std::thread::sleep(Duration::from_millis(500));
            println!("threads base={} after dropping 50 caches without close={}", base, threads());
        }
        "negmax" => {
            let c: Cache<u64, u64, TransparentKeyBuilder<u64>, _, _, Cb> = Cache::builder(10, -5)
                .set_key_builder(TransparentKeyBuilder::<u64>::default()).set_callback(cb.clone()).set_ignore_internal_cost(true).set_buffer_items(0).finalize().unwrap();
            for k in 0..5 { c.insert(k, k, 0); let _ = c.get(&k); }
            println!("wait -> {:?} len={} cbs={}", c.wait(), c.len(), cb.0.lock().unwrap().len());
        }
        _ => {}
    }
}
