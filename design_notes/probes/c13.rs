use std::collections::HashMap;
use stretto::verif::TinyLfu;
fn main() {
    let mut rng = 0x9E3779B97F4A7C15u64;
    let mut next = move || { rng ^= rng << 13; rng ^= rng >> 7; rng ^= rng << 17; rng };
    let (mut seqs, mut incs, mut resets, mut bad) = (0u64, 0u64, 0u64, 0u64);
    for n in (1usize..=70).chain([100, 1000, 4096]) {
        for shape in 0..4 {
            let mut t = match TinyLfu::new(n) { Ok(t) => t, Err(e) => { println!("n={n}: {e}"); continue } };
            seqs += 1;
            let universe: Vec<u64> = (0..(1 + next() % 40)).map(|i| match shape { 0 => next(), 1 => i, 2 => i << 54, _ => (next() & 0x00ff_ffff_0000_0000) | 0x8000_0000_0000_0001 }).collect();
            let mut cnt: HashMap<u64, u64> = HashMap::new(); let mut w = 0usize;
            for k in universe.iter().chain([0u64, u64::MAX].iter()) { if t.estimate(*k) != 0 { bad += 1; println!("fresh estimate nonzero n={n}"); } }
            for step in 0..(3 * n + 200) {
                let k = universe[(next() % universe.len() as u64) as usize];
                let before: Vec<(u64, i64, i64, bool)> = universe.iter().map(|u| (*u, t.estimate(*u), t.sketch_estimate(*u), t.contains(*u))).collect();
                t.increment(k); incs += 1; w += 1; *cnt.entry(k).or_default() += 1;
                if w >= n {
                    w = 0; cnt.clear(); resets += 1;
                    // need the sketch value after this increment but before halving: recompute from 'before'
                    for (u, _e, sk, dk) in &before {
                        let sk_after_inc = if *u == k && *dk { (*sk + 1).min(15) } else { *sk };
                        // collisions may have raised others too; accept >= floor(sk/2) and <= floor((sk+1)/2) for non-k keys
                        let e2 = t.estimate(*u);
                        let lo = sk_after_inc / 2; let hi = (sk_after_inc.max(*sk + 1).min(15)) / 2 + 0;
                        if t.contains(*u) { bad += 1; if bad < 10 { println!("doorkeeper not emptied at reset n={n} step={step}"); } }
                        if e2 < lo || e2 > hi.max(lo) { bad += 1; if bad < 10 { println!("reset halving off: n={n} key={u:#x} sk_before={sk} est_after={e2} lo={lo} hi={hi}"); } }
                    }
                } else {
                    for (u, e, _sk, _dk) in &before {
                        let e2 = t.estimate(*u);
                        if e2 < *e { bad += 1; if bad < 10 { println!("estimate decreased between resets n={n} key={u:#x} {e}->{e2}"); } }
                        if e2 > 16 { bad += 1; println!("estimate above 16"); }
                        let nk = *cnt.get(u).unwrap_or(&0) as i64;
                        if e2 < nk.min(16) { bad += 1; if bad < 10 { println!("undercount n={n} key={u:#x} recorded={nk} est={e2}"); } }
                    }
                }
            }
            t.clear();
            for k in universe.iter() { if t.estimate(*k) != 0 { bad += 1; println!("clear left estimate n={n}"); } }
        }
    }
    println!("sequences={seqs} increments={incs} resets_observed={resets} oracle_failures={bad}");
}
