use std::collections::{HashMap, HashSet};
use stretto::verif::{observe, Policy};
fn main() {
    let mut rng = 0x2545F4914F6CDD1Du64;
    let mut next = move || { rng ^= rng << 13; rng ^= rng >> 7; rng ^= rng << 17; rng };
    let (mut adds, mut iters, mut rejects, mut multi, mut stale, mut bad) = (0u64, 0u64, 0u64, 0u64, 0u64, 0u64);
    for round in 0..400 {
        let max = 5 + (next() % 40) as i64;
        let p = Policy::new(1000, max);
        // popularity
        for _ in 0..(next() % 6) { let ks: Vec<u64> = (0..(1 + next() % 20)).map(|_| next() % 24).collect(); while !p.push(ks.clone()) { std::thread::yield_now(); } }
        std::thread::sleep(std::time::Duration::from_millis(2)); // let the worker drain (prototype only)
        for _ in 0..60 {
            let (costs, used, maxc) = p.costs();
            let pre: HashMap<u64, i64> = costs.into_iter().collect();
            let est: HashMap<u64, i64> = (0..24u64).map(|k| (k, p.estimate(k))).collect();
            let k = next() % 24; let c = 1 + (next() % (max as u64 + 2)) as i64;
            if next() % 10 == 0 { p.update_max_cost(5 + (next() % 40) as i64); continue; }
            if next() % 10 == 0 { if let Some(k2) = pre.keys().next() { p.update(*k2, 1 + (next() % 20) as i64); } continue; }
            observe::take();
            let (victims, added) = p.add(k, c);
            let evs = observe::take(); adds += 1; iters += evs.len() as u64;
            let mut fail = |msg: &str| { bad += 1; if bad < 10 { println!("round {round} add({k},{c}) max={maxc} used={used} pre={pre:?}: {msg}; victims={victims:?} added={added} evs={evs:?}"); } };
            if c > maxc { if added || victims.is_some() || !evs.is_empty() { fail("oversize not rejected cleanly"); } continue; }
            if pre.contains_key(&k) { if added || victims.is_some() { fail("resident key not treated as update"); } continue; }
            if maxc - (used + c) >= 0 { if !added || victims.is_some() || !evs.is_empty() { fail("room but not plainly admitted"); } continue; }
            // eviction path
            let mut residents = pre.clone(); let mut u = used; let mut gone: HashSet<u64> = HashSet::new(); let mut obs_victims = vec![];
            let inc = est[&k]; let mut rejected = false;
            for (i, e) in evs.iter().enumerate() {
                if maxc - (u + c) >= 0 { fail("iteration although room"); }
                if !(e.sample.len() == 5 || residents.keys().all(|r| e.sample.iter().any(|s| s.0 == *r))) { fail("sample neither five nor all residents"); }
                for (sk, sc) in &e.sample { if !(residents.get(sk) == Some(sc) || gone.contains(sk)) { fail("sampled pair not resident nor evicted in this call"); } if gone.contains(sk) { stale += 1; } }
                let minh = e.sample.iter().map(|s| est[&s.0]).min().unwrap_or(i64::MAX);
                if inc < minh { if i != evs.len() - 1 { fail("continued after reject condition"); } rejected = true; break; }
                if est[&e.victim] != minh { fail("victim not least popular in sample"); }
                if est[&e.victim] > inc { fail("victim more popular than newcomer"); }
                if let Some(vc) = residents.remove(&e.victim) { u -= vc; }
                gone.insert(e.victim); obs_victims.push(e.victim);
            }
            if evs.len() > 1 { multi += 1; }
            if rejected { rejects += 1; if added { fail("added though rejected"); } } else { if !added { fail("not added though never rejected"); } if maxc - (u + c) < 0 { fail("admitted without room"); } }
            let rv: Vec<u64> = victims.clone().unwrap_or_default().into_iter().map(|v| v.0).collect();
            if rv != obs_victims { fail("returned victims differ from observed"); }
            let (post, used2, _) = p.costs(); let post: HashMap<u64, i64> = post.into_iter().collect();
            let mut expect = residents.clone(); if added { expect.insert(k, c); }
            if post != expect || used2 != expect.values().sum::<i64>() { fail("post state mismatch"); }
        }
    }
    println!("adds={adds} loop_iterations={iters} rejects={rejects} multi_victim_adds={multi} stale_candidates={stale} oracle_failures={bad}");
}
