use std::collections::HashMap;
use std::time::Duration;
use stretto::{Cache, TransparentKeyBuilder};
fn main() {
    let mut rng = 0xabcdefu64; let mut next = move || { rng ^= rng << 13; rng ^= rng >> 7; rng ^= rng << 17; rng };
    let (mut hist, mut gets, mut under, mut acct) = (0u64, 0u64, 0u64, 0u64);
    for &bi in &[0usize, 1, 2, 3, 7, 64] {
        for _ in 0..40 {
            let c: Cache<u64, u64, TransparentKeyBuilder<u64>> = Cache::builder(1_000_000, 1000).set_key_builder(TransparentKeyBuilder::<u64>::default()).set_ignore_internal_cost(true).set_metrics(true).set_buffer_items(bi).finalize().unwrap();
            for k in 0..4u64 { c.insert(k, k, 1); } c.wait().unwrap();
            let mut seq = vec![]; let l = 1 + next() % 200;
            for _ in 0..l { let k = next() % 10; let _ = c.get(&k).map(|v| *v.value()); seq.push(k); gets += 1; std::thread::sleep(Duration::from_micros(30)); }
            std::thread::sleep(Duration::from_millis(5));
            let cap = bi.max(1); let flushed = (seq.len() / cap) * cap;
            let mut cnt: HashMap<u64, i64> = HashMap::new(); for k in &seq[..flushed] { *cnt.entry(*k).or_default() += 1; }
            let kept = c.metrics.get_gets_kept().unwrap(); let dropped = c.metrics.get_gets_dropped().unwrap();
            if kept + dropped != flushed as u64 { acct += 1; println!("bi={bi} flushed={flushed} kept={kept} dropped={dropped}"); }
            if dropped == 0 { for (k, n) in cnt { let e = c.verif_estimate(k); if e < n.min(16) { under += 1; println!("bi={bi} key {k}: looked up {n} times, estimate {e}"); } } }
            hist += 1; c.close().unwrap();
        }
    }
    println!("histories={hist} gets={gets} accounting_mismatches={acct} undercounts={under}");
}
