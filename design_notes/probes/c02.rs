use std::cell::RefCell;
use std::collections::HashMap;
use std::sync::atomic::{AtomicU64, Ordering};
use std::sync::{Arc, Mutex};
use stretto::{Cache, CacheCallback, Item, TransparentKeyBuilder};

static CLK: AtomicU64 = AtomicU64::new(1);
fn now() -> u64 { CLK.fetch_add(1, Ordering::SeqCst) }
thread_local! { static EXITS: RefCell<Vec<u64>> = RefCell::new(Vec::new()); }
#[derive(Default, Clone)]
struct Cb(Arc<Mutex<Vec<(u64, u64)>>>); // (time, id)
impl CacheCallback for Cb {
    type Value = u64;
    fn on_exit(&self, v: Option<u64>) { let id = v.unwrap(); EXITS.with(|e| e.borrow_mut().push(id)); self.0.lock().unwrap().push((now(), id)); }
    fn on_evict(&self, i: Item<u64>) { self.0.lock().unwrap().push((now(), i.val.unwrap())); }
    fn on_reject(&self, i: Item<u64>) { self.0.lock().unwrap().push((now(), i.val.unwrap())); }
}
#[derive(Clone, Debug)]
enum Ev { Write { k: u64, id: u64, c: u64, r: u64, ok: bool, upd: bool }, Remove { k: u64, c: u64, r: u64, ok: bool }, Clear { c: u64, r: u64 }, Wait { c: u64, r: u64, ok: bool }, Read { k: u64, c: u64, r: u64, got: Option<u64> } }
fn main() {
    let rounds: u64 = std::env::args().nth(1).and_then(|s| s.parse().ok()).unwrap_or(300);
    let (mut reads, mut hits, mut r3_checked, mut r4_checked, mut bad) = (0u64, 0u64, 0u64, 0u64, 0u64);
    for round in 0..rounds {
        let cb = Cb::default();
        let tight = round % 2 == 0;
        let c: Arc<Cache<u64, u64, TransparentKeyBuilder<u64>, _, _, Cb>> = Arc::new(Cache::builder(1000, if tight { 6 } else { 1000 })
            .set_key_builder(TransparentKeyBuilder::<u64>::default()).set_callback(cb.clone()).set_ignore_internal_cost(true).finalize().unwrap());
        let ids = Arc::new(AtomicU64::new(1));
        let log: Arc<Mutex<Vec<Ev>>> = Arc::new(Mutex::new(Vec::new()));
        let mut hs = vec![];
        for t in 0..4u64 {
            let c = c.clone(); let ids = ids.clone(); let log = log.clone();
            hs.push(std::thread::spawn(move || {
                let mut r = round * 7919 + t * 104729 + 1; let mut mine = vec![];
                for _ in 0..150 {
                    r ^= r << 13; r ^= r >> 7; r ^= r << 17;
                    let k = r % 8;
                    match (r >> 8) % 16 {
                        0..=5 => { let id = (k << 48) | ids.fetch_add(1, Ordering::SeqCst); EXITS.with(|e| e.borrow_mut().clear()); let cl = now(); let ok = c.try_insert(k, id, 1).unwrap_or(false); let rt = now(); let upd = EXITS.with(|e| e.borrow().iter().any(|x| x >> 48 == k)); mine.push(Ev::Write { k, id, c: cl, r: rt, ok, upd }); }
                        6 => { let cl = now(); let ok = c.try_remove(&k).is_ok(); mine.push(Ev::Remove { k, c: cl, r: now(), ok }); }
                        7 => { if (r >> 30) % 6 == 0 { let cl = now(); let _ = c.clear(); mine.push(Ev::Clear { c: cl, r: now() }); } }
                        8 => { let cl = now(); let ok = c.wait().is_ok(); mine.push(Ev::Wait { c: cl, r: now(), ok }); }
                        _ => { let cl = now(); let got = c.get(&k).map(|v| *v.value()); mine.push(Ev::Read { k, c: cl, r: now(), got }); }
                    }
                }
                log.lock().unwrap().extend(mine);
            }));
        }
        for h in hs { h.join().unwrap(); }
        while c.wait().is_err() { std::thread::yield_now(); }
        let t_end = now();
        let finalv: HashMap<u64, u64> = (0..8u64).filter_map(|k| c.get(&k).map(|v| (k, *v.value()))).collect();
        let log = log.lock().unwrap();
        let writes: HashMap<u64, (u64, u64, u64, bool, bool)> = log.iter().filter_map(|e| if let Ev::Write { k, id, c, r, ok, upd } = e { Some((*id, (*k, *c, *r, *ok, *upd))) } else { None }).collect();
        let clears: Vec<(u64, u64)> = log.iter().filter_map(|e| if let Ev::Clear { c, r } = e { Some((*c, *r)) } else { None }).collect();
        let waits: Vec<(u64, u64)> = log.iter().filter_map(|e| if let Ev::Wait { c, r, ok: true } = e { Some((*c, *r)) } else { None }).collect();
        let mut seen_at: HashMap<u64, u64> = HashMap::new();
        for e in log.iter() { match e { Ev::Read { r, got: Some(id), .. } => { let x = seen_at.entry(*id).or_insert(u64::MAX); *x = (*x).min(*r); } Ev::Write { id, r, ok: true, upd: true, .. } => { let x = seen_at.entry(*id).or_insert(u64::MAX); *x = (*x).min(*r); } _ => {} } }
        let cbs = cb.0.lock().unwrap().clone(); let mut dumped = false; let mut fail = |m: String| { bad += 1; if bad < 8 { println!("round {round}: {m}"); } };
        for e in log.iter() {
            if let Ev::Read { k, c: rc, r: rr, got } = e {
                reads += 1;
                if let Some(id) = got {
                    hits += 1;
                    if id >> 48 != *k { fail(format!("R1 foreign value {id:#x} for key {k}")); continue; }
                    let Some((_, wc, wr, ok, _)) = writes.get(id) else { fail(format!("R2 unknown value {id:#x}")); continue };
                    if !ok || wc > rr { fail(format!("R2 value from failed/future write {id:#x}")); }
                    for x in log.iter() {
                        match x {
                            Ev::Remove { k: xk, c: xc, r: xr, ok: true } if xk == k && wr < xc => { r3_checked += 1; if waits.iter().any(|(wtc, wtr)| wtc > xr && wtr < rc && !clears.iter().any(|(cc, cr)| cc <= wtr && cr >= xc)) { fail(format!("R3 stale after applied remove: key {k} value {id:#x} write_ret={wr} remove=({xc},{xr}) read=({rc},{rr})")); if !dumped { dumped = true; let mut evs: Vec<(u64, String)> = log.iter().filter_map(|e| match e { Ev::Write{k: kk, c, ..} if kk == k => Some((*c, format!("{e:?}"))), Ev::Remove{k: kk, c, ..} if kk == k => Some((*c, format!("{e:?}"))), Ev::Read{k: kk, c, ..} if kk == k => Some((*c, format!("{e:?}"))), Ev::Clear{c, ..} => Some((*c, format!("{e:?}"))), Ev::Wait{c, ..} => Some((*c, format!("{e:?}"))), _ => None }).collect(); for (t, id2) in cbs.iter() { if id2 >> 48 == *k { evs.push((*t, format!("callback id={id2:#x}"))); } } evs.sort(); for (t, d) in evs.iter().filter(|(t, _)| *t <= *rr + 5) { println!("   {t}: {d}"); } } } }
                            Ev::Remove { k: xk, c: xc, r: xr, ok: true } if xk == k && *xr < *rc && seen_at.get(id).map_or(false, |t| t < xc) => { r3_checked += 1; fail(format!("R3' value {id:#x} observably resident before remove=({xc},{xr}) returned by read=({rc},{rr})")); }
                            Ev::Clear { c: xc, r: xr } if wr < xc && xr < rc => { r3_checked += 1; fail(format!("R3 stale after clear: key {k} value {id:#x} write_ret={wr} clear=({xc},{xr}) read=({rc},{rr})")); }
                            _ => {}
                        }
                    }
                }
                // R4'': final resident value is stable from its (synchronous) application onwards
                if let Some(fv) = finalv.get(k) { let (_, _, wr, _, upd) = writes[fv]; if upd && *rc > wr && *rr < t_end { r4_checked += 1; if *got != Some(*fv) { fail(format!("R4 read {got:?} after update {fv:#x} (ret {wr}) that is still resident at the end; read=({rc},{rr})")); } } }
            }
        }
        let _ = c.close();
    }
    println!("histories={rounds} reads={reads} hits={hits} r3_candidates={r3_checked} r4_checked={r4_checked} failures={bad}");
}
