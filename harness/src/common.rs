//! Shared plumbing: seeded RNG, report (three-valued verdicts, evidence counters), panic monitor.
use serde_json::{json, Value};
use std::collections::{BTreeMap, BTreeSet};
use std::hash::{Hash, Hasher};
use std::sync::Mutex;

// ---------------------------------------------------------------------------------------------
// RNG: splitmix64 for seeding, xorshift64* for the stream (deterministic, no dependencies)
// ---------------------------------------------------------------------------------------------
#[derive(Clone, Debug)]
pub struct Rng(pub u64);

pub fn splitmix(x: u64) -> u64 {
    let mut z = x.wrapping_add(0x9e3779b97f4a7c15);
    z = (z ^ (z >> 30)).wrapping_mul(0xbf58476d1ce4e5b9);
    z = (z ^ (z >> 27)).wrapping_mul(0x94d049bb133111eb);
    z ^ (z >> 31)
}

impl Rng {
    pub fn new(seed: u64) -> Self {
        Rng(splitmix(seed) | 1)
    }
    pub fn derive(&self, salt: u64) -> Rng {
        Rng::new(self.0 ^ splitmix(salt))
    }
    #[inline]
    pub fn next(&mut self) -> u64 {
        let mut x = self.0;
        x ^= x >> 12;
        x ^= x << 25;
        x ^= x >> 27;
        self.0 = x;
        x.wrapping_mul(0x2545F4914F6CDD1D)
    }
    #[inline]
    pub fn below(&mut self, n: u64) -> u64 {
        if n == 0 {
            0
        } else {
            self.next() % n
        }
    }
    #[inline]
    pub fn range(&mut self, lo: u64, hi_incl: u64) -> u64 {
        lo + self.below(hi_incl - lo + 1)
    }
    #[inline]
    pub fn chance(&mut self, num: u64, den: u64) -> bool {
        self.below(den) < num
    }
    pub fn pick<'a, T>(&mut self, xs: &'a [T]) -> &'a T {
        &xs[self.below(xs.len() as u64) as usize]
    }
    pub fn f64(&mut self) -> f64 {
        (self.next() >> 11) as f64 / (1u64 << 53) as f64
    }
}

pub fn hash_of<T: Hash>(t: &T) -> u64 {
    let mut h = std::collections::hash_map::DefaultHasher::new();
    t.hash(&mut h);
    h.finish()
}

// ---------------------------------------------------------------------------------------------
// Report
// ---------------------------------------------------------------------------------------------
#[derive(Clone, Debug)]
pub struct Violation {
    pub property: String,
    /// normalised class of the failure: clause id + causal class; keys known findings
    pub signature: String,
    pub message: String,
    pub witness: Value,
}

#[derive(Default)]
pub struct Report {
    pub engine: String,
    pub property: String,
    pub seed: u64,
    pub shard: u64,
    pub tier: String,
    pub counters: BTreeMap<String, u64>,
    pub violations: Vec<Violation>,
    pub violation_counts: BTreeMap<String, u64>,
    pub inconclusive: Vec<String>,
    pub samples: Vec<Value>,
    pub evaluations: u64,
    pub distinct: BTreeSet<u64>,
    pub states: BTreeSet<u64>,
    pub fingerprints: BTreeSet<u64>,
    pub notes: Vec<String>,
}

pub const MAX_WITNESSES_PER_SIGNATURE: u64 = 3;

impl Report {
    pub fn new(engine: &str, property: &str, seed: u64, shard: u64, tier: &str) -> Self {
        Report {
            engine: engine.into(),
            property: property.into(),
            seed,
            shard,
            tier: tier.into(),
            ..Default::default()
        }
    }
    #[inline]
    pub fn count(&mut self, k: &str) {
        self.add(k, 1)
    }
    #[inline]
    pub fn add(&mut self, k: &str, n: u64) {
        if let Some(v) = self.counters.get_mut(k) {
            *v += n;
        } else {
            self.counters.insert(k.to_string(), n);
        }
    }
    pub fn max(&mut self, k: &str, n: u64) {
        let e = self.counters.entry(k.to_string()).or_insert(0);
        if n > *e {
            *e = n;
        }
    }
    pub fn get(&self, k: &str) -> u64 {
        self.counters.get(k).copied().unwrap_or(0)
    }
    /// A refutation of `property`. Only the first few witnesses per signature are kept in full.
    pub fn violate(&mut self, property: &str, signature: &str, message: String, witness: Value) {
        let key = format!("{property}|{signature}");
        let n = self.violation_counts.entry(key).or_insert(0);
        *n += 1;
        if *n <= MAX_WITNESSES_PER_SIGNATURE {
            self.violations.push(Violation {
                property: property.into(),
                signature: signature.into(),
                message,
                witness,
            });
        }
    }
    /// Fold a per-case report into this one.
    pub fn merge(&mut self, from: Report) {
        for (k, v) in from.counters {
            if k.contains("_max_") {
                self.max(&k, v);
            } else {
                self.add(&k, v);
            }
        }
        for v in from.violations {
            let key = format!("{}|{}", v.property, v.signature);
            let kept = self
                .violations
                .iter()
                .filter(|w| w.property == v.property && w.signature == v.signature)
                .count() as u64;
            let _ = key;
            if kept < MAX_WITNESSES_PER_SIGNATURE {
                self.violations.push(v);
            }
        }
        for (k, n) in from.violation_counts {
            *self.violation_counts.entry(k).or_insert(0) += n;
        }
        for i in from.inconclusive {
            self.inconclusive(i);
        }
        for s in from.samples {
            self.sample(s);
        }
        self.evaluations += from.evaluations;
        self.distinct.extend(from.distinct);
        self.states.extend(from.states);
        self.fingerprints.extend(from.fingerprints);
    }
    pub fn inconclusive(&mut self, why: String) {
        if self.inconclusive.len() < 50 {
            self.inconclusive.push(why);
        }
        self.count("inconclusive_events");
    }
    pub fn sample(&mut self, v: Value) {
        if self.samples.len() < 3 {
            self.samples.push(v);
        }
    }
    pub fn case(&mut self, nontrivial: bool, h: u64) {
        self.evaluations += 1;
        if nontrivial {
            self.distinct.insert(h);
        }
    }
    pub fn violations_for(&self, property: &str) -> u64 {
        self.violation_counts
            .iter()
            .filter(|(k, _)| k.starts_with(&format!("{property}|")))
            .map(|(_, v)| *v)
            .sum()
    }
    pub fn to_json(&self) -> Value {
        json!({
            "engine": self.engine,
            "property": self.property,
            "seed": self.seed,
            "shard": self.shard,
            "tier": self.tier,
            "counters": self.counters,
            "violations": self.violations.iter().map(|v| json!({
                "property": v.property, "signature": v.signature, "message": v.message, "witness": v.witness
            })).collect::<Vec<_>>(),
            "violation_counts": self.violation_counts,
            "inconclusive": self.inconclusive,
            "samples": self.samples,
            "evaluations": self.evaluations,
            "distinct": self.distinct.iter().take(200_000).collect::<Vec<_>>(),
            "distinct_count": self.distinct.len(),
            "states": self.states.iter().take(200_000).collect::<Vec<_>>(),
            "states_count": self.states.len(),
            "fingerprints": self.fingerprints.iter().take(200_000).collect::<Vec<_>>(),
            "fingerprints_count": self.fingerprints.len(),
            "notes": self.notes,
        })
    }
}

// ---------------------------------------------------------------------------------------------
// Panic monitor (process wide)
// ---------------------------------------------------------------------------------------------
#[derive(Clone, Debug)]
pub struct PanicRec {
    pub thread: String,
    pub message: String,
    pub location: String,
    /// true when the panic did not originate in harness source
    pub sut_side: bool,
    pub seq: u64,
}

static PANICS: Mutex<Vec<PanicRec>> = Mutex::new(Vec::new());

pub fn install_panic_monitor() {
    std::panic::set_hook(Box::new(|info| {
        let loc = info
            .location()
            .map(|l| format!("{}:{}", l.file(), l.line()))
            .unwrap_or_else(|| "?".into());
        let msg = if let Some(s) = info.payload().downcast_ref::<&str>() {
            s.to_string()
        } else if let Some(s) = info.payload().downcast_ref::<String>() {
            s.clone()
        } else {
            "<non-string panic>".into()
        };
        let sut_side = !(loc.contains("/verif/harness/") || loc.starts_with("src/"));
        let rec = PanicRec {
            thread: std::thread::current().name().unwrap_or("?").to_string(),
            message: msg.chars().take(300).collect(),
            location: loc,
            sut_side,
            seq: stretto::verif::seq::next(),
        };
        if !sut_side {
            eprintln!("HARNESS PANIC {:?}\n{}", rec, std::backtrace::Backtrace::force_capture());
        }
        PANICS.lock().unwrap_or_else(|e| e.into_inner()).push(rec);
    }));
}

pub fn take_panics() -> Vec<PanicRec> {
    std::mem::take(&mut *PANICS.lock().unwrap_or_else(|e| e.into_inner()))
}

pub fn panic_count() -> usize {
    PANICS.lock().unwrap_or_else(|e| e.into_inner()).len()
}

/// Fold recorded panics into the report: SUT-side panics are violations of `props`,
/// harness-side ones make the run inconclusive.
pub fn fold_panics(rep: &mut Report, props: &[&str], context: &Value) {
    for p in take_panics() {
        if p.sut_side {
            rep.count("sut_panics");
            // normalise: file:line is stable for one tree and distinguishes call sites
            let sig = format!("panic/{}", p.location.rsplit('/').next().unwrap_or(&p.location));
            for prop in props {
                rep.violate(
                    prop,
                    &sig,
                    format!("panic on thread '{}' at {}: {}", p.thread, p.location, p.message),
                    json!({"panic": {"thread": p.thread, "location": p.location, "message": p.message}, "context": context}),
                );
            }
        } else {
            rep.inconclusive(format!("harness panic at {}: {}", p.location, p.message));
        }
    }
}

pub fn ns(d: std::time::Duration) -> u64 {
    d.as_nanos() as u64
}
