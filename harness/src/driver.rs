//! One blocking facade over `Cache` and over `AsyncCache` on four kinds of executor, so that every
//! monitor can be pointed at either flavour.
use crate::val::{Cb, Cst, Kb, Tracked, Vld};
use std::future::Future;
use std::pin::Pin;
use std::sync::atomic::{AtomicU64, Ordering};
use std::sync::{Arc, OnceLock};
use std::task::{Context, Poll};
use std::time::Duration;
use stretto::verif::Snapshot;
use stretto::{AsyncCache, AsyncCacheBuilder, Cache, CacheBuilder};

pub type SC = Cache<u64, Tracked, Kb, Cst, Vld, Cb>;
pub type AC = AsyncCache<u64, Tracked, Kb, Cst, Vld, Cb>;

#[derive(Clone, Copy, Debug, PartialEq, Eq, Hash)]
pub enum Exec {
    TokioMt,
    TokioCt,
    AsyncStd,
    ThreadPerTask,
    /// the harness' own executor: background tasks are only polled from inside block_on, in an
    /// order drawn from a seeded generator (samples the polling orders of the two background tasks)
    Seeded,
}

#[derive(Clone, Copy, Debug, PartialEq, Eq, Hash)]
pub enum Flavor {
    Sync,
    Async(Exec),
}

impl Flavor {
    pub fn name(&self) -> &'static str {
        match self {
            Flavor::Sync => "sync",
            Flavor::Async(Exec::TokioMt) => "async/tokio-multi-thread",
            Flavor::Async(Exec::TokioCt) => "async/tokio-current-thread",
            Flavor::Async(Exec::AsyncStd) => "async/async-std",
            Flavor::Async(Exec::ThreadPerTask) => "async/thread-per-task",
            Flavor::Async(Exec::Seeded) => "async/seeded-polling-order",
        }
    }
    pub fn parse(s: &str) -> Option<Flavor> {
        Some(match s {
            "sync" => Flavor::Sync,
            "tokio-mt" => Flavor::Async(Exec::TokioMt),
            "tokio-ct" => Flavor::Async(Exec::TokioCt),
            "async-std" => Flavor::Async(Exec::AsyncStd),
            "thread-per-task" => Flavor::Async(Exec::ThreadPerTask),
            "seeded" => Flavor::Async(Exec::Seeded),
            _ => return None,
        })
    }
    pub fn is_async(&self) -> bool {
        !matches!(self, Flavor::Sync)
    }
    /// can another thread run cache code while one of the cache's own tasks is parked at a gate?
    pub fn gates_ok(&self) -> bool {
        !matches!(self, Flavor::Async(Exec::TokioCt) | Flavor::Async(Exec::Seeded))
    }
}

#[derive(Clone, Debug)]
pub struct Cfg {
    pub num_counters: usize,
    pub max_cost: i64,
    pub buffer_size: usize,
    pub buffer_items: usize,
    pub metrics: bool,
    pub ignore_internal: bool,
    /// None = leave the builder's default
    pub cleanup: Option<Duration>,
    pub collide: bool,
    /// with `collide`: the even key of each pair has conflict hash 0 ("no conflict hash")
    pub collide_zero_even: bool,
    pub manual_ticker: bool,
}

impl Default for Cfg {
    fn default() -> Self {
        Cfg {
            num_counters: 1000,
            max_cost: 100,
            buffer_size: 32 * 1024,
            buffer_items: 64,
            metrics: true,
            ignore_internal: true,
            cleanup: None,
            collide: false,
            collide_zero_even: false,
            manual_ticker: true,
        }
    }
}

#[derive(Clone, Copy, Debug, PartialEq, Eq)]
pub struct Seen {
    pub id: u64,
    pub key: u64,
    pub aux: i64,
    pub ttl: Duration,
}

pub const METRIC_NAMES: [&str; 11] = [
    "hits", "misses", "keys_added", "keys_updated", "keys_evicted", "cost_added", "cost_evicted", "sets_dropped", "sets_rejected", "gets_dropped", "gets_kept",
];

pub trait Drv: Send + Sync {
    fn flavor(&self) -> Flavor;
    fn try_insert(&self, k: u64, v: Tracked, cost: i64, ttl: Duration) -> Result<bool, String>;
    fn try_insert_if_present(&self, k: u64, v: Tracked, cost: i64) -> Result<bool, String>;
    /// the unwrapping variants (`insert`, `insert_with_ttl`, `insert_if_present`, `remove`)
    fn insert_plain(&self, k: u64, v: Tracked, cost: i64, ttl: Option<Duration>) -> bool;
    fn insert_if_present_plain(&self, k: u64, v: Tracked, cost: i64) -> bool;
    fn remove_plain(&self, k: u64);
    fn get(&self, k: u64) -> Option<Seen>;
    /// get_mut; with `write`, the value's id is overwritten in place
    fn get_mut(&self, k: u64, write: Option<u64>) -> Option<Seen>;
    fn get_ttl(&self, k: u64) -> Option<Duration>;
    /// look-up whose guard (ValueRef, or ValueRefMut with `mutable`) stays alive while `hold` runs
    fn get_hold(&self, k: u64, mutable: bool, hold: &(dyn Fn() + Sync)) -> Option<Seen>;
    fn try_remove(&self, k: u64) -> Result<(), String>;
    fn wait(&self) -> Result<(), String>;
    fn clear(&self) -> Result<(), String>;
    fn close(&self) -> Result<(), String>;
    fn len(&self) -> usize;
    fn max_cost(&self) -> i64;
    fn update_max_cost(&self, m: i64);
    fn metrics(&self) -> Option<[u64; 11]>;
    fn ratio(&self) -> Option<f64>;
    fn life_histogram(&self) -> Option<String>;
    fn snapshot(&self) -> Snapshot;
    fn estimate(&self, index: u64) -> i64;
    fn buffer(&self) -> (usize, usize);
    /// let the cache's background tasks run until `cond` holds (needed on executors that only
    /// make progress while somebody drives them); false on timeout
    fn drive_until(&self, cond: &(dyn Fn() -> bool + Sync), timeout: Duration) -> bool;
    fn clone_handle(&self) -> Arc<dyn Drv>;
}

fn metrics_of(m: &stretto::Metrics) -> Option<[u64; 11]> {
    Some([
        m.get_hits()?,
        m.get_misses()?,
        m.get_keys_added()?,
        m.get_keys_updated()?,
        m.get_keys_evicted()?,
        m.get_cost_added()?,
        m.get_cost_evicted()?,
        m.get_sets_dropped()?,
        m.get_sets_rejected()?,
        m.get_gets_dropped()?,
        m.get_gets_kept()?,
    ])
}

fn err<E: std::fmt::Display>(e: E) -> String {
    e.to_string()
}

// ---------------------------------------------------------------------------------------------
// sync
// ---------------------------------------------------------------------------------------------
pub struct SyncDrv(pub SC);

impl Drv for SyncDrv {
    fn flavor(&self) -> Flavor {
        Flavor::Sync
    }
    fn try_insert(&self, k: u64, v: Tracked, cost: i64, ttl: Duration) -> Result<bool, String> {
        self.0.try_insert_with_ttl(k, v, cost, ttl).map_err(err)
    }
    fn try_insert_if_present(&self, k: u64, v: Tracked, cost: i64) -> Result<bool, String> {
        self.0.try_insert_if_present(k, v, cost).map_err(err)
    }
    fn insert_plain(&self, k: u64, v: Tracked, cost: i64, ttl: Option<Duration>) -> bool {
        match ttl {
            None => self.0.insert(k, v, cost),
            Some(t) => self.0.insert_with_ttl(k, v, cost, t),
        }
    }
    fn insert_if_present_plain(&self, k: u64, v: Tracked, cost: i64) -> bool {
        self.0.insert_if_present(k, v, cost)
    }
    fn remove_plain(&self, k: u64) {
        self.0.remove(&k)
    }
    fn get(&self, k: u64) -> Option<Seen> {
        self.0.get(&k).map(|r| {
            let v = r.value();
            Seen { id: v.id, key: v.key, aux: v.aux, ttl: r.ttl() }
        })
    }
    fn get_mut(&self, k: u64, write: Option<u64>) -> Option<Seen> {
        self.0.get_mut(&k).map(|mut r| {
            let seen = {
                let v = r.value();
                Seen { id: v.id, key: v.key, aux: v.aux, ttl: Duration::ZERO }
            };
            if let Some(new) = write {
                crate::val::log(crate::val::EvKind::Mutate { key: k, old: seen.id, new });
                r.value_mut().id = new;
            }
            seen
        })
    }
    fn get_ttl(&self, k: u64) -> Option<Duration> {
        self.0.get_ttl(&k)
    }
    fn get_hold(&self, k: u64, mutable: bool, hold: &(dyn Fn() + Sync)) -> Option<Seen> {
        if mutable {
            self.0.get_mut(&k).map(|r| {
                let v = r.value();
                let seen = Seen { id: v.id, key: v.key, aux: v.aux, ttl: Duration::ZERO };
                hold();
                seen
            })
        } else {
            self.0.get(&k).map(|r| {
                let v = r.value();
                let seen = Seen { id: v.id, key: v.key, aux: v.aux, ttl: r.ttl() };
                hold();
                seen
            })
        }
    }
    fn try_remove(&self, k: u64) -> Result<(), String> {
        self.0.try_remove(&k).map_err(err)
    }
    fn wait(&self) -> Result<(), String> {
        self.0.wait().map_err(err)
    }
    fn clear(&self) -> Result<(), String> {
        self.0.clear().map_err(err)
    }
    fn close(&self) -> Result<(), String> {
        self.0.close().map_err(err)
    }
    fn len(&self) -> usize {
        self.0.len()
    }
    fn max_cost(&self) -> i64 {
        self.0.max_cost()
    }
    fn update_max_cost(&self, m: i64) {
        self.0.update_max_cost(m)
    }
    fn metrics(&self) -> Option<[u64; 11]> {
        metrics_of(&self.0.metrics)
    }
    fn ratio(&self) -> Option<f64> {
        self.0.metrics.ratio()
    }
    fn life_histogram(&self) -> Option<String> {
        self.0.metrics.life_expectancy_seconds().map(|h| h.to_string())
    }
    fn snapshot(&self) -> Snapshot {
        self.0.verif_snapshot(|v| v.id)
    }
    fn estimate(&self, index: u64) -> i64 {
        self.0.verif_estimate(index)
    }
    fn buffer(&self) -> (usize, usize) {
        self.0.verif_buffer()
    }
    fn drive_until(&self, cond: &(dyn Fn() -> bool + Sync), timeout: Duration) -> bool {
        crate::supervise::polling(|| {
            let t0 = std::time::Instant::now();
            let mut spins = 0u32;
            while !cond() {
                spins += 1;
                if spins < 200 {
                    std::thread::yield_now();
                } else {
                    std::thread::sleep(Duration::from_micros(50));
                }
                if spins % 64 == 0 && t0.elapsed() > timeout {
                    return false;
                }
            }
            true
        })
    }
    fn clone_handle(&self) -> Arc<dyn Drv> {
        Arc::new(SyncDrv(self.0.clone()))
    }
}

// ---------------------------------------------------------------------------------------------
// async
// ---------------------------------------------------------------------------------------------
pub static TASKS_SPAWNED: AtomicU64 = AtomicU64::new(0);
pub static TASKS_COMPLETED: AtomicU64 = AtomicU64::new(0);
pub static TASKS_DROPPED: AtomicU64 = AtomicU64::new(0);

struct TaskProbe(bool);
impl Drop for TaskProbe {
    fn drop(&mut self) {
        if self.0 {
            TASKS_COMPLETED.fetch_add(1, Ordering::SeqCst);
        } else {
            TASKS_DROPPED.fetch_add(1, Ordering::SeqCst);
        }
    }
}

/// Marks the thread as "running a background task of the cache" while the task is polled.
struct Background<F>(F);
impl<F: Future + Unpin> Future for Background<F> {
    type Output = F::Output;
    fn poll(mut self: Pin<&mut Self>, cx: &mut Context<'_>) -> Poll<F::Output> {
        crate::val::background_enter();
        let r = Pin::new(&mut self.0).poll(cx);
        crate::val::background_exit();
        r
    }
}

fn probed(fut: futures::future::BoxFuture<'static, ()>) -> impl Future<Output = ()> + Send + 'static {
    TASKS_SPAWNED.fetch_add(1, Ordering::SeqCst);
    Background(Box::pin(async move {
        let mut p = TaskProbe(false);
        fut.await;
        p.0 = true;
    }))
}

fn tokio_mt() -> &'static tokio::runtime::Runtime {
    static RT: OnceLock<tokio::runtime::Runtime> = OnceLock::new();
    RT.get_or_init(|| tokio::runtime::Builder::new_multi_thread().worker_threads(4).thread_name("tokio-mt").build().unwrap())
}
fn tokio_ct() -> &'static tokio::runtime::Runtime {
    static RT: OnceLock<tokio::runtime::Runtime> = OnceLock::new();
    RT.get_or_init(|| tokio::runtime::Builder::new_current_thread().build().unwrap())
}

pub struct YieldNow(pub bool);
impl Future for YieldNow {
    type Output = ();
    fn poll(mut self: Pin<&mut Self>, cx: &mut Context<'_>) -> Poll<()> {
        if self.0 {
            Poll::Ready(())
        } else {
            self.0 = true;
            cx.waker().wake_by_ref();
            Poll::Pending
        }
    }
}

pub fn block_on<F: Future>(e: Exec, f: F) -> F::Output {
    match e {
        Exec::TokioMt => tokio_mt().block_on(f),
        Exec::TokioCt => tokio_ct().block_on(f),
        Exec::AsyncStd => async_std::task::block_on(f),
        Exec::ThreadPerTask => futures::executor::block_on(f),
        Exec::Seeded => seeded::block_on(f),
    }
}

/// A small executor whose polling order is drawn from a seeded generator.
pub mod seeded {
    use std::future::Future;
    use std::pin::Pin;
    use std::sync::atomic::{AtomicBool, AtomicU64, Ordering};
    use std::sync::{Arc, Condvar, Mutex};
    use std::task::{Context, Poll, Wake, Waker};

    type Task = Pin<Box<dyn Future<Output = ()> + Send + 'static>>;
    struct Slot {
        task: Option<Task>,
        ready: bool,
        done: bool,
    }
    static SLOTS: Mutex<Vec<Slot>> = Mutex::new(Vec::new());
    static CV: Condvar = Condvar::new();
    static RNG: AtomicU64 = AtomicU64::new(0x9e3779b97f4a7c15);
    pub static POLLS: AtomicU64 = AtomicU64::new(0);
    pub static ORDER_HASH: AtomicU64 = AtomicU64::new(0);

    pub fn set_seed(seed: u64) {
        RNG.store(seed | 1, Ordering::SeqCst);
        ORDER_HASH.store(0, Ordering::SeqCst);
    }
    fn next() -> u64 {
        let mut x = RNG.load(Ordering::Relaxed);
        x ^= x << 13;
        x ^= x >> 7;
        x ^= x << 17;
        RNG.store(x, Ordering::Relaxed);
        x
    }

    struct TaskWaker(usize);
    impl Wake for TaskWaker {
        fn wake(self: Arc<Self>) {
            self.wake_by_ref()
        }
        fn wake_by_ref(self: &Arc<Self>) {
            let mut g = SLOTS.lock().unwrap_or_else(|e| e.into_inner());
            if let Some(s) = g.get_mut(self.0) {
                s.ready = true;
            }
            CV.notify_all();
        }
    }
    struct MainWaker(AtomicBool);
    impl Wake for MainWaker {
        fn wake(self: Arc<Self>) {
            self.wake_by_ref()
        }
        fn wake_by_ref(self: &Arc<Self>) {
            self.0.store(true, Ordering::SeqCst);
            let _g = SLOTS.lock().unwrap_or_else(|e| e.into_inner());
            CV.notify_all();
        }
    }

    pub fn spawn(fut: impl Future<Output = ()> + Send + 'static) {
        let mut g = SLOTS.lock().unwrap_or_else(|e| e.into_inner());
        // completed slots are reused so the table stays small
        let slot = Slot { task: Some(Box::pin(fut)), ready: true, done: false };
        if let Some(i) = g.iter().position(|s| s.done && s.task.is_none()) {
            g[i] = slot;
        } else {
            g.push(slot);
        }
        CV.notify_all();
    }

    pub fn block_on<F: Future>(f: F) -> F::Output {
        let mut f = std::pin::pin!(f);
        let mw = Arc::new(MainWaker(AtomicBool::new(true)));
        let main_waker = Waker::from(mw.clone());
        loop {
            // decide, by the seeded generator, whether the caller's future or the tasks go first
            let main_first = next() % 2 == 0;
            if main_first && mw.0.swap(false, Ordering::SeqCst) {
                if let Poll::Ready(v) = f.as_mut().poll(&mut Context::from_waker(&main_waker)) {
                    return v;
                }
            }
            let mut ready: Vec<usize> = {
                let g = SLOTS.lock().unwrap_or_else(|e| e.into_inner());
                g.iter().enumerate().filter(|(_, s)| s.ready && s.task.is_some()).map(|(i, _)| i).collect()
            };
            // seeded shuffle of the polling order
            for i in (1..ready.len()).rev() {
                ready.swap(i, (next() % (i as u64 + 1)) as usize);
            }
            let polled_any = !ready.is_empty();
            for id in ready {
                let task = {
                    let mut g = SLOTS.lock().unwrap_or_else(|e| e.into_inner());
                    match g.get_mut(id) {
                        // a task that another thread is polling right now keeps its wake-up pending
                        Some(s) if s.ready && s.task.is_some() => {
                            s.ready = false;
                            s.task.take()
                        }
                        _ => None,
                    }
                };
                if let Some(mut t) = task {
                    POLLS.fetch_add(1, Ordering::Relaxed);
                    ORDER_HASH.store(ORDER_HASH.load(Ordering::Relaxed).wrapping_mul(31).wrapping_add(id as u64 + 1), Ordering::Relaxed);
                    let w = Waker::from(Arc::new(TaskWaker(id)));
                    let r = t.as_mut().poll(&mut Context::from_waker(&w));
                    let mut g = SLOTS.lock().unwrap_or_else(|e| e.into_inner());
                    if let Some(s) = g.get_mut(id) {
                        match r {
                            Poll::Pending => s.task = Some(t),
                            Poll::Ready(()) => {
                                s.done = true;
                                drop(t);
                            }
                        }
                    }
                }
            }
            if !main_first && mw.0.swap(false, Ordering::SeqCst) {
                if let Poll::Ready(v) = f.as_mut().poll(&mut Context::from_waker(&main_waker)) {
                    return v;
                }
            }
            if !polled_any && !mw.0.load(Ordering::SeqCst) {
                // nothing runnable: sleep until a waker fires (timers wake from the reactor thread)
                let g = SLOTS.lock().unwrap_or_else(|e| e.into_inner());
                if !g.iter().any(|s| s.ready && s.task.is_some()) && !mw.0.load(Ordering::SeqCst) {
                    let _ = CV.wait_timeout(g, std::time::Duration::from_millis(20));
                }
            }
        }
    }
}

pub struct AsyncDrv(pub AC, pub Exec);

impl AsyncDrv {
    fn bo<F: Future>(&self, f: F) -> F::Output {
        block_on(self.1, f)
    }
}

impl Drv for AsyncDrv {
    fn flavor(&self) -> Flavor {
        Flavor::Async(self.1)
    }
    fn try_insert(&self, k: u64, v: Tracked, cost: i64, ttl: Duration) -> Result<bool, String> {
        self.bo(self.0.try_insert_with_ttl(k, v, cost, ttl)).map_err(err)
    }
    fn try_insert_if_present(&self, k: u64, v: Tracked, cost: i64) -> Result<bool, String> {
        self.bo(self.0.try_insert_if_present(k, v, cost)).map_err(err)
    }
    fn insert_plain(&self, k: u64, v: Tracked, cost: i64, ttl: Option<Duration>) -> bool {
        match ttl {
            None => self.bo(self.0.insert(k, v, cost)),
            Some(t) => self.bo(self.0.insert_with_ttl(k, v, cost, t)),
        }
    }
    fn insert_if_present_plain(&self, k: u64, v: Tracked, cost: i64) -> bool {
        self.bo(self.0.insert_if_present(k, v, cost))
    }
    fn remove_plain(&self, k: u64) {
        self.bo(self.0.remove(&k))
    }
    fn get(&self, k: u64) -> Option<Seen> {
        self.bo(async {
            self.0.get(&k).await.map(|r| {
                let v = r.value();
                Seen { id: v.id, key: v.key, aux: v.aux, ttl: r.ttl() }
            })
        })
    }
    fn get_mut(&self, k: u64, write: Option<u64>) -> Option<Seen> {
        self.bo(async {
            self.0.get_mut(&k).await.map(|mut r| {
                let seen = {
                    let v = r.value();
                    Seen { id: v.id, key: v.key, aux: v.aux, ttl: Duration::ZERO }
                };
                if let Some(new) = write {
                    crate::val::log(crate::val::EvKind::Mutate { key: k, old: seen.id, new });
                    r.value_mut().id = new;
                }
                seen
            })
        })
    }
    fn get_ttl(&self, k: u64) -> Option<Duration> {
        self.0.get_ttl(&k)
    }
    fn get_hold(&self, k: u64, mutable: bool, hold: &(dyn Fn() + Sync)) -> Option<Seen> {
        self.bo(async {
            if mutable {
                self.0.get_mut(&k).await.map(|r| {
                    let v = r.value();
                    let seen = Seen { id: v.id, key: v.key, aux: v.aux, ttl: Duration::ZERO };
                    hold();
                    seen
                })
            } else {
                self.0.get(&k).await.map(|r| {
                    let v = r.value();
                    let seen = Seen { id: v.id, key: v.key, aux: v.aux, ttl: r.ttl() };
                    hold();
                    seen
                })
            }
        })
    }
    fn try_remove(&self, k: u64) -> Result<(), String> {
        self.bo(self.0.try_remove(&k)).map_err(err)
    }
    fn wait(&self) -> Result<(), String> {
        self.bo(self.0.wait()).map_err(err)
    }
    fn clear(&self) -> Result<(), String> {
        self.bo(self.0.clear()).map_err(err)
    }
    fn close(&self) -> Result<(), String> {
        self.bo(self.0.close()).map_err(err)
    }
    fn len(&self) -> usize {
        self.0.len()
    }
    fn max_cost(&self) -> i64 {
        self.0.max_cost()
    }
    fn update_max_cost(&self, m: i64) {
        self.0.update_max_cost(m)
    }
    fn metrics(&self) -> Option<[u64; 11]> {
        metrics_of(&self.0.metrics)
    }
    fn ratio(&self) -> Option<f64> {
        self.0.metrics.ratio()
    }
    fn life_histogram(&self) -> Option<String> {
        self.0.metrics.life_expectancy_seconds().map(|h| h.to_string())
    }
    fn snapshot(&self) -> Snapshot {
        self.0.verif_snapshot(|v| v.id)
    }
    fn estimate(&self, index: u64) -> i64 {
        self.0.verif_estimate(index)
    }
    fn buffer(&self) -> (usize, usize) {
        self.0.verif_buffer()
    }
    fn drive_until(&self, cond: &(dyn Fn() -> bool + Sync), timeout: Duration) -> bool {
        let t0 = std::time::Instant::now();
        crate::supervise::polling(|| self.bo(async {
            let mut spins = 0u32;
            while !cond() {
                spins += 1;
                YieldNow(false).await;
                if spins > 200 {
                    std::thread::sleep(Duration::from_micros(50));
                }
                if spins % 64 == 0 && t0.elapsed() > timeout {
                    return false;
                }
            }
            true
        }))
    }
    fn clone_handle(&self) -> Arc<dyn Drv> {
        Arc::new(AsyncDrv(self.0.clone(), self.1))
    }
}

// ---------------------------------------------------------------------------------------------
// construction
// ---------------------------------------------------------------------------------------------
/// wait() until it succeeds: a full insert buffer makes it fail legitimately, and on executors that
/// only run while somebody drives them the processor has to be given the chance to drain it.
pub fn wait_retry(d: &dyn Drv, timeout: Duration) -> Result<(), String> {
    let t0 = std::time::Instant::now();
    loop {
        match d.wait() {
            Ok(()) => return Ok(()),
            Err(e) => {
                if t0.elapsed() > timeout {
                    return Err(format!("wait() kept failing for {} s: {e}", timeout.as_secs()));
                }
                let _ = d.drive_until(&|| d.buffer().0 < d.buffer().1, Duration::from_millis(100));
            }
        }
    }
}

/// Which of the three orders of builder calls a configuration is built with (every order must give
/// the same cache: the setters that change a type parameter re-assemble the builder and could drop
/// a field set earlier).
pub fn builder_order(cfg: &Cfg) -> u64 {
    (cfg.num_counters as u64 + cfg.buffer_size as u64 * 3 + cfg.buffer_items as u64 * 5 + (cfg.max_cost as u64 & 0xffff) + cfg.metrics as u64 + cfg.ignore_internal as u64 * 2) % 3
}

macro_rules! builder_chain {
    ($B:ident, $cfg:expr, $kb:expr) => {{
        let cfg = $cfg;
        let cleanup = cfg.cleanup.unwrap_or(std::time::Duration::from_secs(2));
        match builder_order(cfg) {
            // type-changing setters first, scalars afterwards
            0 => {
                let mut b = $B::new_with_key_builder(cfg.num_counters, cfg.max_cost, $kb)
                    .set_coster(Cst)
                    .set_update_validator(Vld)
                    .set_callback(Cb)
                    .set_buffer_size(cfg.buffer_size)
                    .set_buffer_items(cfg.buffer_items)
                    .set_metrics(cfg.metrics)
                    .set_ignore_internal_cost(cfg.ignore_internal);
                if cfg.cleanup.is_some() {
                    b = b.set_cleanup_duration(cleanup);
                }
                b
            }
            // scalars first (on the default builder), then every type-changing setter
            1 => {
                let mut b = $B::<u64, Tracked>::new(cfg.num_counters, cfg.max_cost)
                    .set_ignore_internal_cost(cfg.ignore_internal)
                    .set_metrics(cfg.metrics)
                    .set_buffer_items(cfg.buffer_items)
                    .set_buffer_size(cfg.buffer_size);
                if cfg.cleanup.is_some() {
                    b = b.set_cleanup_duration(cleanup);
                }
                b.set_key_builder($kb).set_callback(Cb).set_update_validator(Vld).set_coster(Cst)
            }
            // interleaved, sizes given through their setters
            _ => {
                let mut b = $B::new_with_key_builder(7, 7, $kb).set_buffer_items(cfg.buffer_items).set_coster(Cst).set_metrics(cfg.metrics).set_num_counters(cfg.num_counters);
                if cfg.cleanup.is_some() {
                    b = b.set_cleanup_duration(cleanup);
                }
                b.set_callback(Cb).set_buffer_size(cfg.buffer_size).set_max_cost(cfg.max_cost).set_update_validator(Vld).set_ignore_internal_cost(cfg.ignore_internal)
            }
        }
    }};
}

pub fn build(flavor: Flavor, cfg: &Cfg) -> Result<Arc<dyn Drv>, String> {
    if cfg.manual_ticker {
        stretto::verif::ticker::arm_manual();
    }
    let kb = Kb { collide: cfg.collide, zero_even: cfg.collide_zero_even };
    match flavor {
        Flavor::Sync => {
            let b = builder_chain!(CacheBuilder, cfg, kb);
            b.finalize().map(|c| Arc::new(SyncDrv(c)) as Arc<dyn Drv>).map_err(err)
        }
        Flavor::Async(e) => {
            let b = builder_chain!(AsyncCacheBuilder, cfg, kb);
            let r = match e {
                Exec::TokioMt => b.finalize(|fut| {
                    tokio_mt().spawn(probed(fut));
                }),
                Exec::TokioCt => b.finalize(|fut| {
                    tokio_ct().spawn(probed(fut));
                }),
                Exec::AsyncStd => b.finalize(|fut| {
                    async_std::task::spawn(probed(fut));
                }),
                Exec::Seeded => b.finalize(|fut| {
                    seeded::spawn(probed(fut));
                }),
                Exec::ThreadPerTask => b.finalize(|fut| {
                    std::thread::Builder::new()
                        .name("task-thread".into())
                        .spawn(move || futures::executor::block_on(probed(fut)))
                        .unwrap();
                }),
            };
            let d = r.map(|c| Arc::new(AsyncDrv(c, e)) as Arc<dyn Drv>).map_err(err)?;
            if cfg.manual_ticker {
                // the processor task takes the manual ticker when it first runs
                if !d.drive_until(&|| stretto::verif::ticker::manual_installed(), Duration::from_secs(30)) {
                    return Err("the processor task did not start within 30 s".into());
                }
            }
            Ok(d)
        }
    }
}
