//! Scripted histories (lockstep mode): generation per property profile, execution with quiescence
//! after every step, and the observation trace that the model oracle reads.
use crate::common::Rng;
use crate::driver::{build, Cfg, Drv, Flavor, Seen};
use crate::supervise::{op_done, phase};
use crate::val::{self, Ev, Tracked};
use serde_json::{json, Value};
use std::sync::atomic::Ordering;
use std::sync::Arc;
use std::time::Duration;
use stretto::verif::{clock, counters, observe, ticker, Snapshot};

pub const NS: u64 = 1_000_000_000;

#[derive(Clone, Debug)]
pub enum Step {
    Insert { k: u64, id: u64, cost: i64, aux: i64, ttl_ns: u64 },
    InsertIfPresent { k: u64, id: u64, cost: i64, aux: i64 },
    Remove { k: u64 },
    GetMutWrite { k: u64, new_id: u64 },
    /// n plain look-ups of one key (popularity; hits and misses)
    Lookups { k: u64, n: u32 },
    Clear,
    UpdateMaxCost { m: i64 },
    /// move the virtual clock forward; cleanup ticks due on the way are delivered at their instants
    Advance { dt_ns: u64 },
    Probe,
}

impl Step {
    pub fn short(&self) -> String {
        match self {
            Step::Insert { k, id, cost, aux, ttl_ns } => format!("insert(k{k}, #{id:x}, cost {cost}, coster {aux}, ttl {}ns)", ttl_ns),
            Step::InsertIfPresent { k, id, cost, aux } => format!("insert_if_present(k{k}, #{id:x}, cost {cost}, coster {aux})"),
            Step::Remove { k } => format!("remove(k{k})"),
            Step::GetMutWrite { k, new_id } => format!("get_mut(k{k}).write(#{new_id:x})"),
            Step::Lookups { k, n } => format!("{n} x get(k{k})"),
            Step::Clear => "clear()".into(),
            Step::UpdateMaxCost { m } => format!("update_max_cost({m})"),
            Step::Advance { dt_ns } => format!("advance {dt_ns}ns"),
            Step::Probe => "probe".into(),
        }
    }
}

#[derive(Clone, Debug)]
pub struct Script {
    pub cfg: Cfg,
    pub universe: u64,
    pub start_ns: u64,
    /// cleanup interval used for manual ticks (None: the builder default, read back from the hook)
    pub interval_ns: Option<u64>,
    /// phase of the first tick after start
    pub tick_phase_ns: u64,
    pub vld_mode: u8,
    /// offset of every index hash in this history (val::INDEX_BASE)
    pub index_base: u64,
    pub steps: Vec<Step>,
    pub profile: String,
    /// model may rely on "nothing is ever evicted or rejected for capacity"
    pub below_capacity: bool,
}

impl Script {
    pub fn describe(&self, upto: usize) -> Value {
        json!({
            "profile": self.profile,
            "config": format!("{:?}", self.cfg),
            "universe": self.universe,
            "start_ns": self.start_ns,
            "interval_ns": self.interval_ns,
            "tick_phase_ns": self.tick_phase_ns,
            "validator": self.vld_mode,
            "index_base": self.index_base,
            "below_capacity": self.below_capacity,
            "steps": self.steps.iter().take(upto + 1).map(|s| s.short()).collect::<Vec<_>>(),
        })
    }
}

#[derive(Clone, Debug, Default)]
pub struct ProbeObs {
    pub get: Vec<Option<Seen>>,
    pub ttl: Vec<Option<Duration>>,
    pub get_mut: Vec<Option<Seen>>,
    /// popularity estimate of each key's index, read before this record's own probe look-ups
    pub est: Vec<i64>,
    /// logical clock just before / just after the estimates were read
    pub est_seq: (u64, u64),
}

/// What was observed for one step (or one tick inside an Advance step).
#[derive(Clone, Debug)]
pub struct Obs {
    pub step: usize,
    /// Some(t): this record is the tick delivered at virtual time t inside step `step`
    pub tick_at: Option<u64>,
    pub vnow: u64,
    pub ret_bool: Option<bool>,
    pub ret_err: Option<String>,
    pub seen: Option<Option<Seen>>,
    pub wait_err: Option<String>,
    pub events: Vec<Ev>,
    pub policy: Vec<observe::Ev>,
    pub probe: ProbeObs,
    pub snap: Snapshot,
    pub metrics: Option<[u64; 11]>,
    pub ratio: Option<f64>,
    pub hist: Option<String>,
    pub handler_errors: u64,
    pub start_ts_len: u64,
    pub update_path: bool,
}

#[derive(Clone, Debug)]
pub struct Trace {
    pub flavor: Flavor,
    pub interval_ns: u64,
    pub item_size: usize,
    pub obs: Vec<Obs>,
    pub close_err: Option<String>,
    pub build_err: Option<String>,
    pub ticks_sent: u64,
    pub leaked_ids: Vec<u64>,
}

/// The (never inserted) key looked up right after every clear(); its index is shared with no key of the universe.
pub fn after_clear_key(universe: u64) -> u64 {
    universe * 2 + 10
}

fn probe(d: &dyn Drv, universe: u64, collide: bool, zero_even: bool) -> ProbeObs {
    let mut p = ProbeObs::default();
    let kb = crate::val::Kb { collide, zero_even };
    let before = stretto::verif::seq::next();
    for k in 0..universe {
        p.est.push(d.estimate(kb.pair(k).0));
    }
    p.est_seq = (before, stretto::verif::seq::next());
    for k in 0..universe {
        p.get.push(d.get(k));
        p.ttl.push(d.get_ttl(k));
        p.get_mut.push(d.get_mut(k, None));
        op_done();
    }
    p
}

fn tick_and_wait(d: &dyn Drv, sent: &mut u64) -> Result<(), String> {
    if !ticker::tick() {
        return Err("manual ticker not installed".into());
    }
    *sent += 1;
    let want = *sent;
    if !d.drive_until(&|| counters::get(&counters::TICKS_DONE) >= want, Duration::from_secs(120)) {
        return Err(format!("tick {want} not handled within 120 s"));
    }
    Ok(())
}

/// Execute a script against one cache of the given flavour. Must run on a supervised runner thread.
pub fn run_script(flavor: Flavor, s: &Script) -> Trace {
    stretto::verif::reset();
    val::log_enable(false);
    let _ = val::take_log();
    val::VLD_MODE.store(s.vld_mode, Ordering::SeqCst);
    val::INDEX_BASE.store(s.index_base, Ordering::SeqCst);
    clock::set(s.start_ns);
    crate::driver::seeded::set_seed(s.start_ns ^ (s.steps.len() as u64) << 32 ^ s.tick_phase_ns);
    observe::enable(true);
    val::log_enable(true);
    stretto::verif::sched::set_role(1);
    phase("build");
    let mut tr = Trace { flavor, interval_ns: 0, item_size: 0, obs: Vec::new(), close_err: None, build_err: None, ticks_sent: 0, leaked_ids: Vec::new() };
    let d: Arc<dyn Drv> = match build(flavor, &s.cfg) {
        Ok(d) => d,
        Err(e) => {
            tr.build_err = Some(e);
            return tr;
        }
    };
    tr.interval_ns = s.interval_ns.unwrap_or_else(ticker::interval_ns);
    tr.item_size = d.snapshot().item_size;
    let mut next_tick = s.start_ns + s.tick_phase_ns % tr.interval_ns.max(1);
    let mut sent = 0u64;
    let mut ev_pos = 0usize;
    let mut record = |d: &dyn Drv, step: usize, tick_at: Option<u64>, ret_bool: Option<bool>, ret_err: Option<String>, seen: Option<Option<Seen>>, wait_err: Option<String>, update_path: bool, tr: &mut Trace| {
        phase("check");
        let probe = probe(d, s.universe, s.cfg.collide, s.cfg.collide_zero_even);
        let snap = d.snapshot();
        let events = val::log_since(ev_pos);
        ev_pos += events.len();
        let c = counters::snapshot();
        tr.obs.push(Obs {
            step,
            tick_at,
            vnow: clock::now_ns(),
            ret_bool,
            ret_err,
            seen,
            wait_err,
            events,
            policy: observe::take(),
            probe,
            snap,
            metrics: d.metrics(),
            ratio: d.ratio(),
            hist: d.life_histogram(),
            handler_errors: c.HANDLER_ERRORS,
            start_ts_len: c.START_TS_LEN,
            update_path,
        });
    };
    for (i, st) in s.steps.iter().enumerate() {
        phase("ops");
        let mut ret_bool = None;
        let mut ret_err = None;
        let mut seen = None;
        let mut update_path = false;
        match st {
            Step::Insert { k, id, cost, aux, ttl_ns } => {
                let before = val::tl_exits().0;
                match d.try_insert(*k, Tracked::with_aux(*id, *k, *aux), *cost, Duration::from_nanos(*ttl_ns)) {
                    Ok(b) => ret_bool = Some(b),
                    Err(e) => ret_err = Some(e),
                }
                update_path = val::tl_exits().0 != before;
            }
            Step::InsertIfPresent { k, id, cost, aux } => {
                let before = val::tl_exits().0;
                match d.try_insert_if_present(*k, Tracked::with_aux(*id, *k, *aux), *cost) {
                    Ok(b) => ret_bool = Some(b),
                    Err(e) => ret_err = Some(e),
                }
                update_path = val::tl_exits().0 != before;
            }
            Step::Remove { k } => {
                if let Err(e) = d.try_remove(*k) {
                    ret_err = Some(e);
                }
            }
            Step::GetMutWrite { k, new_id } => seen = Some(d.get_mut(*k, Some(*new_id))),
            Step::Lookups { k, n } => {
                let mut last = None;
                for _ in 0..*n {
                    last = d.get(*k);
                }
                seen = Some(last);
            }
            Step::Clear => {
                phase("clear");
                if let Err(e) = d.clear() {
                    ret_err = Some(e);
                }
                // a look-up the instant clear() has returned: it belongs to the new counting period
                let _ = d.get(after_clear_key(s.universe));
            }
            Step::UpdateMaxCost { m } => d.update_max_cost(*m),
            Step::Probe => {}
            Step::Advance { dt_ns } => {
                let target = clock::now_ns() + dt_ns;
                while next_tick <= target {
                    // quiesce the insert buffer before the tick, deliver the tick at its exact instant
                    phase("tick");
                    clock::set(next_tick);
                    let t = next_tick;
                    next_tick += tr.interval_ns.max(1);
                    let mut werr = tick_and_wait(d.as_ref(), &mut sent).err();
                    phase("wait");
                    if let Err(e) = d.wait() {
                        werr = Some(e);
                    }
                    record(d.as_ref(), i, Some(t), None, None, None, werr, false, &mut tr);
                }
                clock::set(target);
            }
        }
        op_done();
        phase("wait");
        let werr = d.wait().err();
        // let the policy worker apply what the look-ups pushed (estimates are read by the oracle)
        let _ = d.drive_until(
            &|| counters::get(&counters::POLICY_KEYS_APPLIED) >= counters::get(&counters::PUSH_KEYS_KEPT),
            Duration::from_secs(60),
        );
        record(d.as_ref(), i, None, ret_bool, ret_err, seen, werr, update_path, &mut tr);
    }
    tr.ticks_sent = sent;
    phase("close");
    tr.close_err = d.close().err();
    phase("drop");
    drop(d);
    // both workers must be gone before the next cache is built (process-global hooks)
    let t0 = std::time::Instant::now();
    loop {
        let c = counters::snapshot();
        if c.CACHE_WORKERS_EXITED >= c.CACHE_WORKERS_STARTED && c.POLICY_WORKERS_EXITED >= c.POLICY_WORKERS_STARTED {
            break;
        }
        if t0.elapsed() > Duration::from_secs(30) {
            break;
        }
        if flavor.is_async() {
            // tasks on a current-thread executor only finish while somebody drives it
            if let Flavor::Async(e) = flavor {
                crate::driver::block_on(e, crate::driver::YieldNow(false));
            }
        }
        std::thread::yield_now();
    }
    let tail = val::log_since(ev_pos);
    if let Some(last) = tr.obs.last_mut() {
        last.events.extend(tail);
    }
    val::log_enable(false);
    observe::enable(false);
    val::INDEX_BASE.store(0, Ordering::SeqCst);
    phase("idle");
    tr
}

// ---------------------------------------------------------------------------------------------
// generation
// ---------------------------------------------------------------------------------------------

#[derive(Clone, Debug)]
pub struct Profile {
    pub name: &'static str,
    pub universe: (u64, u64),
    /// "tight": max_cost = sum of the per-key charges exactly; "ample": far above; "evict": below
    pub capacity: &'static str,
    pub fixed_cost_per_key: bool,
    pub w_insert: u64,
    pub w_if_present: u64,
    pub w_remove: u64,
    pub w_getmut: u64,
    pub w_lookups: u64,
    pub w_clear: u64,
    pub w_maxcost: u64,
    pub w_advance: u64,
    pub ttl_share: u64, // out of 10 inserts
    pub validators: bool,
    pub coster: bool,
    pub big_costs: bool,
    pub collide: bool,
    /// out of 10 histories: colliding key builder (distinct non-zero conflict hashes) although `collide` is off
    pub collide_share: u64,
    /// out of 12 histories: a vetoing validator although `validators` is off
    pub validator_share: u64,
    pub steps: (u64, u64),
    pub intervals_ms: &'static [u64],
    pub default_interval_share: u64, // out of 10 scripts
}

pub const INTERVALS: &[u64] = &[100, 250, 500, 1000, 2000, 3000, 5000];

pub fn profile(name: &str) -> Profile {
    let base = Profile {
        name: "base",
        universe: (2, 10),
        capacity: "tight",
        fixed_cost_per_key: true,
        w_insert: 34,
        w_if_present: 6,
        w_remove: 8,
        w_getmut: 3,
        w_lookups: 3,
        w_clear: 2,
        w_maxcost: 0,
        w_advance: 30,
        ttl_share: 6,
        validators: false,
        coster: false,
        big_costs: false,
        collide: false,
        collide_share: 0,
        validator_share: 2,
        steps: (40, 120),
        intervals_ms: INTERVALS,
        default_interval_share: 2,
    };
    match name {
        "C03" => Profile { name: "C03", validator_share: 4, capacity: "ample", ttl_share: 7, w_advance: 40, w_clear: 4, ..base },
        "C04" => Profile { name: "C04", universe: (1, 10), ..base },
        "C05" => Profile { name: "C05", collide_share: 2, ttl_share: 9, w_advance: 36, w_insert: 36, w_if_present: 3, w_getmut: 1, w_lookups: 1, default_interval_share: 3, ..base },
        "C09" => Profile { name: "C09", collide_share: 3, validators: true, w_if_present: 22, w_insert: 30, w_remove: 10, capacity: "ample", fixed_cost_per_key: false, coster: true, ..base },
        "C11" => Profile { name: "C11", collide_share: 2, w_clear: 9, ttl_share: 6, ..base },
        "C16" => Profile { name: "C16", capacity: "ample", fixed_cost_per_key: false, coster: true, big_costs: true, w_if_present: 10, w_advance: 12, ttl_share: 3, ..base },
        "C17" => Profile { name: "C17", capacity: "evict", fixed_cost_per_key: false, w_lookups: 14, w_clear: 3, universe: (4, 14), big_costs: true, ..base },
        "C01" => Profile { name: "C01", capacity: "evict", fixed_cost_per_key: false, big_costs: true, w_maxcost: 6, w_if_present: 8, coster: true, universe: (4, 16), ..base },
        "C07" => Profile { name: "C07", capacity: "evict", fixed_cost_per_key: false, w_lookups: 16, universe: (6, 16), w_advance: 10, ttl_share: 2, ..base },
        "C18" => Profile { name: "C18", collide: true, capacity: "ample", universe: (4, 12), w_getmut: 8, w_if_present: 10, ..base },
        "C19" => Profile { name: "C19", capacity: "ample", fixed_cost_per_key: false, coster: true, validators: true, w_clear: 4, w_lookups: 4, ..base },
        "C15" => Profile { name: "C15", capacity: "ample", w_lookups: 40, w_insert: 16, w_advance: 8, w_clear: 3, w_if_present: 1, w_getmut: 6, ..base },
        "C02" => Profile { name: "C02", validator_share: 4, w_getmut: 10, w_insert: 36, w_remove: 12, w_clear: 4, ..base },
        "C08" => Profile { name: "C08", capacity: "evict", fixed_cost_per_key: false, validators: true, w_remove: 12, universe: (4, 12), ..base },
        _ => base,
    }
}

pub const TTLS_NS: &[u64] = &[1_000_000, 999_000_000, NS, 1_001_000_000, 1_500_000_000, 2 * NS, 59_999_000_000, 3600 * NS, 360_000 * NS];
pub const OFFSETS_NS: &[u64] = &[0, 1, 499_000_000, 500_000_000, 999_999_999];

pub fn generate(p: &Profile, rng: &mut Rng, history_no: u64, item_size: usize) -> Script {
    let universe = rng.range(p.universe.0, p.universe.1);
    let ignore_internal = rng.chance(1, 2);
    let overhead = if ignore_internal { 0 } else { item_size as i64 };
    // (C04 profile, internal overhead ignored: one key in three histories costs nothing at all - a resident entry
    // whose charge is 0 is still an entry: admitted, swept, re-admitted like any other)
    let zero_key = if p.name == "C04" && ignore_internal && history_no % 3 == 0 { Some(history_no / 3 % universe) } else { None };
    let base_cost: Vec<i64> = (0..universe).map(|k| if Some(k) == zero_key { 0 } else { 1 + ((k * 7 + history_no) % 5) as i64 }).collect();
    let sum: i64 = base_cost.iter().map(|c| c + overhead).sum();
    let max_cost = match p.capacity {
        "tight" => sum,
        "evict" => {
            let per = sum / universe as i64;
            (per * rng.range(2, (universe - 1).max(2)) as i64).max(per + 1)
        }
        _ => {
            if rng.chance(1, 2) {
                sum * 1000 + 1_000_000
            } else {
                i64::MAX / 4
            }
        }
    };
    let default_interval = rng.below(10) < p.default_interval_share;
    let interval_ms = *rng.pick(p.intervals_ms);
    let cfg = Cfg {
        num_counters: if p.name == "C15" { *rng.pick(&[64usize, 100, 100_000]) } else { *rng.pick(&[100usize, 1000, 10_000]) },
        max_cost,
        buffer_size: *rng.pick(&[64usize, 1024, 32 * 1024]),
        buffer_items: if p.name == "C15" { *rng.pick(&[0usize, 1, 2, 3, 64]) } else { *rng.pick(&[1usize, 3, 64]) },
        metrics: true,
        ignore_internal,
        cleanup: if default_interval { None } else { Some(Duration::from_millis(interval_ms)) },
        collide: p.collide || history_no % 10 < p.collide_share,
        collide_zero_even: p.collide && history_no % 2 == 1,
        manual_ticker: true,
    };
    let start_ns = 1_700_000_000 * NS + rng.below(1000) * NS + *rng.pick(OFFSETS_NS);
    let vld_mode = if (p.validators && rng.chance(2, 3)) || (!p.validators && (history_no / 10) % 12 < p.validator_share) { rng.range(1, 4) as u8 } else { 0 };
    let nsteps = rng.range(p.steps.0, p.steps.1);
    let mut steps = Vec::with_capacity(nsteps as usize);
    let mut idc = (history_no << 24) | 1;
    let total_w = p.w_insert + p.w_if_present + p.w_remove + p.w_getmut + p.w_lookups + p.w_clear + p.w_maxcost + p.w_advance;
    // deadlines known so far, to aim clock advances at d-1ns / d / d+1ns
    let mut vnow = start_ns;
    let mut deadlines: Vec<u64> = Vec::new();
    let cost_of = |rng: &mut Rng, k: u64| -> (i64, i64) {
        if p.fixed_cost_per_key {
            return (base_cost[k as usize], 0);
        }
        let c = if p.big_costs && rng.chance(1, 6) {
            *rng.pick(&[1i64 << 31, 1 << 40, 1 << 62, i64::MAX, i64::MAX - 1, i64::MAX - 56, max_cost, max_cost.saturating_add(1), max_cost - 1])
        } else {
            rng.range(1, 9) as i64
        };
        if p.coster && rng.chance(1, 3) {
            (0, rng.range(0, 9) as i64) // explicit cost 0: the Coster decides (possibly 0 as well)
        } else {
            (c, rng.range(0, 5) as i64)
        }
    };
    for _ in 0..nsteps {
        let mut r = rng.below(total_w);
        let k = rng.below(universe);
        macro_rules! take {
            ($w:expr) => {{
                if r < $w {
                    true
                } else {
                    r -= $w;
                    false
                }
            }};
        }
        if take!(p.w_insert) {
            idc += 1;
            let ttl_ns = if rng.below(10) < p.ttl_share {
                match rng.below(5) {
                    0 | 1 => *rng.pick(TTLS_NS),
                    2 => 1 + rng.below(3 * NS),
                    3 => NS * rng.range(1, 3),
                    _ => 1_000_000 * rng.range(1, 2500),
                }
            } else {
                0
            };
            let (cost, aux) = cost_of(rng, k);
            if ttl_ns > 0 {
                deadlines.push(vnow + ttl_ns);
            }
            if p.collide && history_no % 2 == 1 && k % 2 == 1 {
                // the odd key of a pair never owns the slot in this mode: its operations are look-ups,
                // removes, conditional and in-place writes against the even key's entry
                steps.push(Step::InsertIfPresent { k, id: idc, cost, aux });
            } else {
                steps.push(Step::Insert { k, id: idc, cost, aux, ttl_ns });
            }
        } else if take!(p.w_if_present) {
            idc += 1;
            let (cost, aux) = cost_of(rng, k);
            steps.push(Step::InsertIfPresent { k, id: idc, cost, aux });
        } else if take!(p.w_remove) {
            steps.push(Step::Remove { k });
        } else if take!(p.w_getmut) {
            idc += 1;
            steps.push(Step::GetMutWrite { k, new_id: idc });
        } else if take!(p.w_lookups) {
            steps.push(Step::Lookups { k, n: rng.range(1, 12) as u32 });
        } else if take!(p.w_clear) {
            steps.push(Step::Clear);
        } else if take!(p.w_maxcost) {
            let m = match rng.below(6) {
                0 => -(rng.range(1, 100) as i64),
                1 => 1,
                2 => max_cost / 2,
                3 => max_cost * 2,
                _ => max_cost,
            };
            steps.push(Step::UpdateMaxCost { m });
        } else {
            let dt = match rng.below(6) {
                0 => 1 + rng.below(1000),
                1 => rng.below(NS / 2),
                2 => NS - vnow % NS + rng.below(3), // to the next second boundary (+0..2ns)
                3 => rng.below(3 * NS),
                4 if !deadlines.is_empty() => {
                    // exactly to d-1ns, d or d+1ns of some entry
                    let d = *rng.pick(&deadlines);
                    let tgt = d + rng.below(3) - 1;
                    if tgt > vnow {
                        tgt - vnow
                    } else {
                        1 + rng.below(NS)
                    }
                }
                _ => rng.below(6 * NS),
            }
            .max(1)
            // never more than 40 ticks per step (ticks are delivered, not skipped)
            .min(40 * interval_ms.max(if default_interval { 2000 } else { 1 }) * 1_000_000);
            vnow += dt;
            steps.push(Step::Advance { dt_ns: dt });
        }
    }
    // always end by running the clock past every short deadline so reclaim bounds are exercised
    steps.push(Step::Advance { dt_ns: 4 * NS + 2 * interval_ms.max(2000) * 1_000_000 });
    steps.push(Step::Probe);
    Script {
        cfg,
        universe,
        start_ns,
        interval_ns: if default_interval { None } else { Some(interval_ms * 1_000_000) },
        tick_phase_ns: rng.below(interval_ms * 1_000_000),
        vld_mode,
        index_base: if history_no % 3 == 0 { 0 } else { (history_no * 7919) % 257 },
        steps,
        profile: p.name.into(),
        below_capacity: p.capacity != "evict",
    }
}
