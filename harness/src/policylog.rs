//! Online oracle over the policy observer log (C01): the events are emitted under the policy lock,
//! so the log is the serialisation of every change to the charged total.
use crate::common::Report;
use serde_json::json;
use std::collections::HashMap;
use stretto::verif::observe::{Costs, Ev};

#[derive(Default)]
pub struct PolicyShadow {
    pub costs: HashMap<u64, i64>,
    pub used: i128,
    pub max_cost: Option<i64>,
    pub entered: Option<(u64, i64, Costs)>,
    pub events: u64,
    pub admissions: u64,
    pub oversize_refusals: u64,
    pub rejections: u64,
    pub evictions: u64,
    pub updates: u64,
    pub synced: bool,
}

impl PolicyShadow {
    pub fn new(max_cost: i64) -> Self {
        PolicyShadow { max_cost: Some(max_cost), synced: true, ..Default::default() }
    }

    fn consistent(&self, st: &Costs, what: &str, rep: &mut Report, ctx: &serde_json::Value) {
        if st.used as i128 != st.sum {
            rep.violate("C01", "used/not-sum-of-charges", format!("{what}: used {} != sum of per-key charges {}", st.used, st.sum), ctx.clone());
        }
        if self.synced && (st.keys != self.costs.len() || st.sum != self.used) {
            rep.violate(
                "C01",
                "used/changed-outside-a-policy-step",
                format!("{what}: policy reports {} keys / total {}, the steps seen so far give {} keys / total {}", st.keys, st.sum, self.costs.len(), self.used),
                ctx.clone(),
            );
        }
    }

    pub fn feed(&mut self, ev: &Ev, rep: &mut Report, ctx: &serde_json::Value) {
        self.events += 1;
        match ev {
            Ev::MaxCost { max_cost, .. } => self.max_cost = Some(*max_cost),
            Ev::AddEnter { key, cost, st, .. } => {
                if let Some(m) = self.max_cost {
                    if st.max_cost != m {
                        rep.violate("C01", "max_cost/not-in-effect", format!("add({key},{cost}) ran with max_cost {} after update_max_cost({m})", st.max_cost), ctx.clone());
                    }
                }
                self.consistent(st, "at add() entry", rep, ctx);
                self.entered = Some((*key, *cost, *st));
            }
            Ev::AddIter { .. } => {}
            Ev::AddReturn { key, cost, outcome, victims, st, .. } => {
                let pre = self.entered.take();
                let max = pre.map(|p| p.2.max_cost).unwrap_or(st.max_cost);
                for (vk, vc) in victims {
                    if let Some(c) = self.costs.remove(vk) {
                        self.used -= c as i128;
                        self.evictions += 1;
                        if c != *vc {
                            rep.violate("C01", "victim/cost-differs-from-charge", format!("victim {vk} reported with cost {vc}, it was charged {c}"), ctx.clone());
                        }
                    }
                }
                match outcome {
                    0 => {
                        self.oversize_refusals += 1;
                        if *cost <= max {
                            rep.violate("C01", "refused-as-oversize-but-fits", format!("add({key},{cost}) refused as oversize with max_cost {max}"), ctx.clone());
                        }
                    }
                    1 => {
                        self.updates += 1;
                        if let Some(prev) = self.costs.insert(*key, *cost) {
                            self.used += *cost as i128 - prev as i128;
                        } else if self.synced {
                            rep.violate("C01", "update-of-uncharged-key", format!("add({key},{cost}) took the update path but the key was not charged"), ctx.clone());
                        }
                    }
                    2 | 4 => {
                        self.admissions += 1;
                        if *cost > max {
                            rep.violate("C01", "admit/oversize", format!("key {key} admitted with cost {cost} > max_cost {max}"), ctx.clone());
                        }
                        if self.costs.insert(*key, *cost).is_some() && self.synced {
                            rep.violate("C01", "admit/already-charged", format!("key {key} admitted although it was already charged"), ctx.clone());
                        }
                        self.used += *cost as i128;
                        // every admission of a new key re-establishes total <= max_cost
                        if st.used > st.max_cost {
                            rep.violate("C01", "admit/total-over-max", format!("after admitting key {key} (cost {cost}) the charged total is {} > max_cost {}", st.used, st.max_cost), ctx.clone());
                        }
                    }
                    3 => self.rejections += 1,
                    _ => {}
                }
                self.consistent(st, "at add() return", rep, ctx);
            }
            Ev::Update { key, cost, st, .. } => {
                if let Some(prev) = self.costs.get_mut(key) {
                    // the charge may have been clamped to keep the total representable
                    let inferred = st.sum - (self.used - *prev as i128);
                    let newc = if self.synced && inferred != *cost as i128 {
                        if !(inferred < *cost as i128 && st.sum == i64::MAX as i128) {
                            rep.violate("C01", "update/delta-not-new-minus-old", format!("update({key},{cost}): total moved from {} to {}, old charge {}", self.used, st.sum, *prev), ctx.clone());
                        }
                        inferred as i64
                    } else {
                        *cost
                    };
                    self.used += newc as i128 - *prev as i128;
                    *prev = newc;
                    self.updates += 1;
                }
                self.consistent(st, "after update()", rep, ctx);
            }
            Ev::Remove { key, st, .. } => {
                if let Some(c) = self.costs.remove(key) {
                    self.used -= c as i128;
                }
                self.consistent(st, "after remove()", rep, ctx);
            }
            Ev::Clear { st, .. } => {
                self.costs.clear();
                self.used = 0;
                self.synced = true;
                if st.used != 0 || st.keys != 0 {
                    rep.violate("C01", "clear/total-not-zero", format!("after the policy's clear(): used {} with {} keys", st.used, st.keys), ctx.clone());
                }
            }
            Ev::Push { .. } | Ev::Applied { .. } => {}
        }
    }
}

pub fn check_policy_log(max_cost0: i64, evs: &[Ev], rep: &mut Report, ctx: &serde_json::Value) -> PolicyShadow {
    let mut sh = PolicyShadow::new(max_cost0);
    for e in evs {
        sh.feed(e, rep, ctx);
    }
    rep.add("policy_events_checked", sh.events);
    rep.add("policy_admissions", sh.admissions);
    rep.add("policy_oversize_refusals", sh.oversize_refusals);
    rep.add("policy_rejections", sh.rejections);
    rep.add("policy_evictions", sh.evictions);
    rep.add("policy_cost_updates", sh.updates);
    let _ = json!(null);
    sh
}
