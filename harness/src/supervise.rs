//! Supervised execution: every call into the cache that can block is made from a runner thread; the
//! supervisor tells definitive non-termination (state based) from slowness (wall clock, which is
//! never a verdict).
use serde_json::{json, Value};
use std::collections::BTreeMap;
use std::sync::atomic::{AtomicU64, Ordering};
use std::sync::mpsc;
use std::time::{Duration, Instant};
use stretto::verif::counters;

/// bumped by harness clients after every completed call into the cache
pub static OPS_DONE: AtomicU64 = AtomicU64::new(0);
/// what the runner is doing (for diagnosis): an index into PHASES
pub static PHASE: AtomicU64 = AtomicU64::new(0);
pub const PHASES: [&str; 13] = ["idle", "build", "ops", "wait", "clear", "close", "tick", "quiesce", "check", "drop", "join-clients", "gate", "stop-helpers"];

pub fn phase(p: &str) {
    let i = PHASES.iter().position(|x| *x == p).unwrap_or(0);
    PHASE.store(i as u64, Ordering::SeqCst);
}
#[inline]
pub fn op_done() {
    OPS_DONE.fetch_add(1, Ordering::Relaxed);
}

#[derive(Debug)]
pub enum Sup<T> {
    Done(T),
    /// the runner thread panicked (harness-side or SUT-side; see the panic monitor)
    Panicked,
    /// definitive: nothing in the process can make progress any more
    Hang(Value),
    /// generous wall-clock watchdog fired without a definitive diagnosis: inconclusive
    Timeout(Value),
}

fn progress_signature() -> (counters::Counters, u64, usize) {
    let mut c = counters::snapshot();
    // periodic ticks are not progress towards releasing anybody - except while the harness itself waits
    // for the ticks it has fed to be handled (quiescence protocol, lockstep tick delivery)
    let ph = PHASES[PHASE.load(Ordering::SeqCst) as usize % PHASES.len()];
    if !(ph == "quiesce" || ph == "tick") {
        c.TICKS_STARTED = 0;
        c.TICKS_DONE = 0;
    }
    (c, OPS_DONE.load(Ordering::SeqCst), crate::val::log_len())
}

#[derive(Clone, Debug, PartialEq, Eq)]
struct ThreadStat {
    comm: String,
    state: char,
    switches: u64,
    cpu: u64,
}

fn thread_stats() -> BTreeMap<u64, ThreadStat> {
    let mut m = BTreeMap::new();
    let me = unsafe_gettid();
    if let Ok(rd) = std::fs::read_dir("/proc/self/task") {
        for e in rd.flatten() {
            let tid: u64 = match e.file_name().to_string_lossy().parse() {
                Ok(t) => t,
                Err(_) => continue,
            };
            if tid == me {
                continue;
            }
            let base = e.path();
            let comm = std::fs::read_to_string(base.join("comm")).unwrap_or_default().trim().to_string();
            let stat = std::fs::read_to_string(base.join("stat")).unwrap_or_default();
            // state is the field after the parenthesised comm
            let after = stat.rsplit(')').next().unwrap_or("").trim().to_string();
            let f: Vec<&str> = after.split_whitespace().collect();
            let state = f.first().and_then(|s| s.chars().next()).unwrap_or('?');
            let cpu = f.get(11).and_then(|s| s.parse::<u64>().ok()).unwrap_or(0) + f.get(12).and_then(|s| s.parse::<u64>().ok()).unwrap_or(0);
            let status = std::fs::read_to_string(base.join("status")).unwrap_or_default();
            let mut sw = 0u64;
            for l in status.lines() {
                if l.starts_with("voluntary_ctxt_switches") || l.starts_with("nonvoluntary_ctxt_switches") {
                    sw += l.split_whitespace().last().and_then(|s| s.parse::<u64>().ok()).unwrap_or(0);
                }
            }
            m.insert(tid, ThreadStat { comm, state, switches: sw, cpu });
        }
    }
    m
}

fn unsafe_gettid() -> u64 {
    // /proc/thread-self resolves to /proc/<pid>/task/<tid>
    std::fs::read_link("/proc/thread-self").ok().and_then(|p| p.file_name().map(|f| f.to_string_lossy().parse().unwrap_or(0))).unwrap_or(0)
}

pub fn thread_count() -> usize {
    std::fs::read_dir("/proc/self/task").map(|d| d.count()).unwrap_or(0)
}

fn stacks() -> String {
    // gdb stops every thread of this process, including the one that would drain a pipe: its
    // output therefore goes to a file, never to a pipe
    let pid = std::process::id();
    let path = std::env::temp_dir().join(format!("vcheck-stacks-{pid}.txt"));
    let file = match std::fs::File::create(&path) {
        Ok(f) => f,
        Err(e) => return format!("cannot create {path:?}: {e}"),
    };
    let err = file.try_clone().ok();
    let mut cmd = std::process::Command::new("timeout");
    cmd.args(["-k", "5", "40", "gdb", "-p", &pid.to_string(), "-batch", "-ex", "set pagination off", "-ex", "thread apply all bt 40", "-ex", "detach", "-ex", "quit"])
        .stdin(std::process::Stdio::null())
        .stdout(file);
    if let Some(e) = err {
        cmd.stderr(e);
    }
    let status = cmd.status();
    let s = std::fs::read_to_string(&path).unwrap_or_default();
    let _ = std::fs::remove_file(&path);
    let keep: Vec<&str> = s.lines().filter(|l| l.starts_with("Thread ") || l.starts_with('#')).collect();
    let mut t = keep.join("\n");
    if t.len() > 60_000 {
        t.truncate(60_000);
    }
    if t.is_empty() {
        t = format!("no stacks (gdb status {status:?})");
    }
    t
}

static POLLERS: std::sync::Mutex<Vec<u64>> = std::sync::Mutex::new(Vec::new());

/// Run a harness polling loop (waiting for a hook counter to move). The thread is registered so
/// that the supervisor does not mistake the polling itself for "a thread that can make progress".
pub fn polling<R>(f: impl FnOnce() -> R) -> R {
    let tid = unsafe_gettid();
    POLLERS.lock().unwrap_or_else(|e| e.into_inner()).push(tid);
    let r = f();
    let mut g = POLLERS.lock().unwrap_or_else(|e| e.into_inner());
    if let Some(i) = g.iter().position(|t| *t == tid) {
        g.remove(i);
    }
    r
}

fn is_poller(tid: u64) -> bool {
    POLLERS.lock().unwrap_or_else(|e| e.into_inner()).contains(&tid)
}

/// Threads that wake up on their own without doing work for anybody (pure reactors).
fn is_background_noise(comm: &str) -> bool {
    // async-io's reactor polls with a back-off while somebody sits in its block_on; the harness'
    // own time-keeper only moves the virtual clock and feeds ticks - except while the runner is
    // waiting for that very thread to end
    let stopping_helpers = PHASES[PHASE.load(Ordering::SeqCst) as usize % PHASES.len()] == "stop-helpers";
    comm.starts_with("async-io") || (comm.starts_with("timekeeper") && !stopping_helpers)
}

/// Run `f` on a runner thread. `watchdog`: generous wall-clock limit (inconclusive when it fires).
pub fn supervised<T: Send + 'static>(label: &str, watchdog: Duration, f: impl FnOnce() -> T + Send + 'static) -> Sup<T> {
    let (tx, rx) = mpsc::channel();
    let h = std::thread::Builder::new()
        .name(format!("runner:{label}"))
        .spawn(move || {
            let r = std::panic::catch_unwind(std::panic::AssertUnwindSafe(f));
            let _ = tx.send(r.is_ok());
            r.ok()
        })
        .expect("spawn runner");
    let t0 = Instant::now();
    let mut last_sig = progress_signature();
    let mut last_change = Instant::now();
    let mut prev_stats: Option<BTreeMap<u64, ThreadStat>> = None;
    // first sample of the current stall: CPU consumed since then is CPU consumed without logical progress
    let mut stall_stats: Option<BTreeMap<u64, ThreadStat>> = None;
    let mut spin_checks = 0;
    loop {
        match rx.recv_timeout(Duration::from_millis(250)) {
            Ok(true) => {
                return match h.join() {
                    Ok(Some(v)) => Sup::Done(v),
                    _ => Sup::Panicked,
                }
            }
            Ok(false) | Err(mpsc::RecvTimeoutError::Disconnected) => {
                let _ = h.join();
                return Sup::Panicked;
            }
            Err(mpsc::RecvTimeoutError::Timeout) => {}
        }
        let sig = progress_signature();
        if sig != last_sig {
            last_sig = sig;
            last_change = Instant::now();
            prev_stats = None;
            stall_stats = None;
        }
        let stalled = last_change.elapsed();
        let need = if POLLERS.lock().unwrap_or_else(|e| e.into_inner()).is_empty() { 3 } else { 15 };
        if stalled > Duration::from_secs(need) {
            // two samples at least one second apart: every thread asleep, nobody scheduled meanwhile
            let cur = thread_stats();
            if stall_stats.is_none() {
                stall_stats = Some(cur.clone());
            }
            if let Some(prev) = prev_stats.as_ref() {
                let quiet = cur.iter().all(|(tid, st)| {
                    is_background_noise(&st.comm) || is_poller(*tid) || (matches!(st.state, 'S' | 'D') && prev.get(tid).map_or(false, |p| p.switches == st.switches && p.cpu == st.cpu))
                }) && cur.len() == prev.len();
                if quiet {
                    let c = counters::snapshot();
                    let diag = json!({
                        "kind": "no thread can make progress",
                        "phase": PHASES[PHASE.load(Ordering::SeqCst) as usize % PHASES.len()],
                        "stalled_s": stalled.as_secs_f64(),
                        "counters": format!("{c:?}"),
                        "cache_worker_exited": c.CACHE_WORKERS_EXITED, "cache_worker_started": c.CACHE_WORKERS_STARTED,
                        "workers_panicked": c.WORKERS_PANICKED,
                        "threads": cur.iter().map(|(t, s)| format!("{t}:{}:{}", s.comm, s.state)).collect::<Vec<_>>(),
                        "stacks": stacks(),
                    });
                    return Sup::Hang(diag);
                }
            }
            // Not every thread is asleep. The async wait-group of the `wg` crate busy-polls
            // (`wake_by_ref(); Pending`), so a task waiting for a processor that will never answer
            // keeps its thread running for ever. After a long stall, look at the stacks: if every
            // thread that is not asleep is only spinning inside such a wait, nobody can make progress.
            if stalled > Duration::from_secs(12 + 12 * spin_checks as u64) && spin_checks < 12 {
                if let Some(prev) = prev_stats.as_ref() {
                    spin_checks += 1;
                    let busy: Vec<u64> = cur
                        .iter()
                        .filter(|(tid, st)| !(is_background_noise(&st.comm) || is_poller(**tid) || (matches!(st.state, 'S' | 'D') && prev.get(*tid).map_or(false, |p| p.switches == st.switches && p.cpu == st.cpu))))
                        .map(|(tid, _)| *tid)
                        .collect();
                    let st = stacks();
                    let blocks: Vec<&str> = st.split("Thread ").collect();
                    let spinning_only = !busy.is_empty()
                        && busy.iter().all(|tid| {
                            // busy-polling a wait group, or idling in an executor / harness loop without any cache frame
                            blocks.iter().any(|b| {
                                let idle_executor = ["async_io::driver::block_on", "async_executor::", "tokio::runtime::park", "futures_executor::local_pool", "vcheck::driver::seeded::block_on", "parking::Inner::park"].iter().any(|f| b.contains(f));
                                b.lines().next().map_or(false, |l| l.contains(&format!("LWP {tid})")))
                                    && (b.contains("wg::future::") || b.contains("YieldNow") || (idle_executor && !b.contains("stretto::") && !b.contains("vcheck::engines::")))
                            })
                        });
                    // Livelock: a thread that has burnt 30 s of CPU time (not wall-clock: it only accrues
                    // while the thread really runs) inside the cache since the last logical progress of
                    // anybody (hook counters, completed client operations, callbacks), while every other
                    // thread sleeps or merely polls. No operation of the workloads costs seconds of CPU.
                    let clk_tck = 100u64;
                    let livelocked: Vec<(u64, u64)> = busy
                        .iter()
                        .filter_map(|tid| {
                            let burnt = cur.get(tid)?.cpu.saturating_sub(stall_stats.as_ref()?.get(tid)?.cpu);
                            let in_cache = blocks.iter().any(|b| b.lines().next().map_or(false, |l| l.contains(&format!("LWP {tid})"))) && b.contains("stretto::") && !b.contains("wg::future::"));
                            if burnt >= 30 * clk_tck && in_cache {
                                Some((*tid, burnt / clk_tck))
                            } else {
                                None
                            }
                        })
                        .collect();
                    if !livelocked.is_empty() {
                        let c = counters::snapshot();
                        return Sup::Hang(json!({
                            "kind": "livelock: a thread keeps running inside the cache without any logical progress",
                            "phase": PHASES[PHASE.load(Ordering::SeqCst) as usize % PHASES.len()],
                            "stalled_s": stalled.as_secs_f64(),
                            "cpu_seconds_burnt_without_progress": livelocked.iter().map(|(t, s)| format!("thread {t}: {s} s")).collect::<Vec<_>>(),
                            "counters": format!("{c:?}"),
                            "threads": cur.iter().map(|(t, s)| format!("{t}:{}:{}", s.comm, s.state)).collect::<Vec<_>>(),
                            "stacks": st,
                        }));
                    }
                    if spinning_only {
                        let c = counters::snapshot();
                        return Sup::Hang(json!({
                            "kind": "no thread can make progress (the running threads only busy-poll a wait group)",
                            "phase": PHASES[PHASE.load(Ordering::SeqCst) as usize % PHASES.len()],
                            "stalled_s": stalled.as_secs_f64(),
                            "counters": format!("{c:?}"),
                            "threads": cur.iter().map(|(t, s)| format!("{t}:{}:{}", s.comm, s.state)).collect::<Vec<_>>(),
                            "busy_polling_threads": busy,
                            "stacks": st,
                        }));
                    }
                }
            }
            prev_stats = Some(cur);
            std::thread::sleep(Duration::from_millis(1000));
        }
        if t0.elapsed() > watchdog {
            let c = counters::snapshot();
            return Sup::Timeout(json!({
                "kind": "watchdog",
                "phase": PHASES[PHASE.load(Ordering::SeqCst) as usize % PHASES.len()],
                "elapsed_s": t0.elapsed().as_secs_f64(),
                "stalled_s": stalled.as_secs_f64(),
                "counters": format!("{c:?}"),
                "threads": thread_stats().iter().map(|(t, s)| format!("{t}:{}:{}", s.comm, s.state)).collect::<Vec<_>>(),
                "stacks": stacks(),
            }));
        }
    }
}
