//! Reference model for lockstep histories: an executable map with deadlines, charges, callback
//! expectations and metric shadows, stepped over the observation trace of `script::run_script`.
//! Every clause is tagged with the property it refutes.
use crate::common::Report;
use crate::script::{Script, Step, Trace, NS};
use crate::val::{vld_decide, EvKind, Kb, CB_EVICT, CB_EXIT, CB_REJECT};
use serde_json::json;
use std::collections::{BTreeMap, HashMap, HashSet};
use std::time::Duration;
use stretto::verif::observe;

#[derive(Clone, Debug)]
struct Ent {
    key: u64,
    id: u64,
    conflict: u64,
    aux: i64,
    charge: i64,
    charge_known: bool,
    t_ins: u64,
    d: u64,
}

impl Ent {
    fn deadline(&self) -> Option<u64> {
        if self.d == 0 {
            None
        } else {
            Some(self.t_ins + self.d)
        }
    }
    fn expired(&self, now: u64) -> bool {
        self.deadline().map_or(false, |dl| now >= dl)
    }
}

#[derive(Clone, Debug, PartialEq)]
enum Expect {
    Exit,
    Reject { cost: Option<i64> },
}

pub struct Outcome {
    pub reclaimed: u64,
    pub evicted_for_room: u64,
    pub rejected: u64,
    pub clears: u64,
    pub ticks: u64,
    pub lookups: u64,
    pub updates: u64,
    pub vetoes: u64,
    pub out_of_domain: bool,
}

fn hist_bucket(secs: i64) -> usize {
    (1..=16).position(|i| secs < (1i64 << i)).unwrap_or(16)
}

fn parse_hist(s: &str) -> Option<(i64, BTreeMap<usize, i64>)> {
    let mut count = None;
    let mut buckets = BTreeMap::new();
    for l in s.lines() {
        if let Some(r) = l.strip_prefix("Count: ") {
            count = r.trim().parse::<i64>().ok();
        } else if l.starts_with('[') {
            // "[lb, ub) ct pct% cum%"
            let inner = l.trim_start_matches('[');
            let (range, rest) = inner.split_once(')')?;
            let (lb, _ub) = range.split_once(',')?;
            let lb: u64 = lb.trim().parse().ok()?;
            let ct: i64 = rest.split_whitespace().next()?.parse().ok()?;
            let idx = if lb == 0 { 0 } else { (lb.trailing_zeros() as usize).min(16) };
            buckets.insert(idx, ct);
        }
    }
    count.map(|c| (c, buckets))
}

/// Clauses that stay exact when distinct keys share an index hash (non-zero, distinct conflict
/// hashes): they identify the entry by its value id and depend neither on the policy's per-index
/// charge nor on which of the colliding keys the policy believes it tracks.
fn collision_sound(prop: &str, sig: &str) -> bool {
    matches!(
        (prop, sig),
        ("C09", "veto/value-replaced")
            | ("C09", "veto/if-present-returned-true")
            | ("C09", "veto/vetoed-value-resident")
            | ("C09", "veto/entry-changed")
            | ("C09", "veto/expiry-index-changed")
            | ("C09", "if-present/created-or-true-on-absent")
            | ("C09", "if-present/true-on-absent-colliding-key")
            | ("C09", "if-present/value-of-false-call-resident")
            | ("C05", "cleanup/removed-unexpired")
            | ("C05", "cleanup/not-reclaimed-in-bound")
    )
}

pub fn check_trace(s: &Script, tr: &Trace, rep: &mut Report) -> Outcome {
    let mut out = Outcome { reclaimed: 0, evicted_for_room: 0, rejected: 0, clears: 0, ticks: 0, lookups: 0, updates: 0, vetoes: 0, out_of_domain: false };
    crate::val::INDEX_BASE.store(s.index_base, std::sync::atomic::Ordering::SeqCst);
    let kb = Kb { collide: s.cfg.collide, zero_even: s.cfg.collide_zero_even };
    let collide = s.cfg.collide;
    let overhead: i64 = if s.cfg.ignore_internal { 0 } else { tr.item_size as i64 };
    let interval = tr.interval_ns.max(1);
    let mut slots: BTreeMap<u64, Ent> = BTreeMap::new(); // index -> resident entry
    let mut max_cost = s.cfg.max_cost;
    let mut expect: HashMap<u64, Expect> = HashMap::new();
    let mut dead_ids: HashSet<u64> = HashSet::new(); // ids already handed to a callback
    let mut silently_droppable: HashSet<u64> = HashSet::new();
    let mut maybe_reject: HashSet<u64> = HashSet::new();
    // entries that had a vetoed write since they were written: their deadline must be unaffected
    let mut vetoed_ids: HashSet<u64> = HashSet::new();
    let mut cleared_ids: HashSet<u64> = HashSet::new();
    // ids of values whose write was vetoed / of insert_if_present calls that returned false: never resident
    let mut vetoed_write_ids: HashSet<u64> = HashSet::new();
    let mut false_if_present_ids: HashSet<u64> = HashSet::new();
    // metric shadows since the last clear
    let (mut m_lookups, mut m_dropped_sets, mut m_pop_rejects, mut m_pushed_keys) = (0u64, 0u64, 0u64, 0u64);
    // C11 "counters restart from zero and the cache behaves like a fresh one": conservation (C17) that held at
    // every record up to the first clear() and fails after one is (also) a defect of clear()
    let (mut cleared_once, mut conservation_failed_before_clear) = (false, false);
    let mut tracked: HashMap<u64, u64> = HashMap::new(); // index -> admission instant (life expectancy)
    let mut hist_expect: BTreeMap<usize, i64> = BTreeMap::new();
    let mut charges_in_domain = true;
    let mut prev_excess: i128 = 0;
    let mut prev_resident_excess: i128 = 0;
    // look-up stream shadow (C15)
    let capa = s.cfg.buffer_items.max(1);
    let mut ring_pending: Vec<u64> = Vec::new();
    let mut applied_counts: HashMap<u64, u64> = HashMap::new();
    let mut w_model: u64 = 0;
    // look-ups applied to the estimator since the last clear(): no estimate can exceed it
    let mut applied_since_clear: u64 = 0;
    let (mut kept_total, mut applied_total, mut applied_at_prev_push) = (0u64, 0u64, 0u64);
    let is_sync = !tr.flavor.is_async();

    if let Some(e) = &tr.build_err {
        rep.violate("C20", "build/refused-valid-config", format!("builder refused a valid configuration: {e}"), s.describe(0));
        crate::val::INDEX_BASE.store(0, std::sync::atomic::Ordering::SeqCst);
        return out;
    }

    for (oi, o) in tr.obs.iter().enumerate() {
        let now = o.vnow;
        let step = &s.steps[o.step];
        macro_rules! wit {
            () => {
                json!({"script": s.describe(o.step), "flavor": tr.flavor.name(), "at_step": o.step, "tick_at": o.tick_at, "vnow": now,
                   "model_resident": slots.values().map(|e| json!({"key": e.key, "id": format!("{:x}", e.id), "charge": e.charge, "t_ins": e.t_ins, "ttl_ns": e.d})).collect::<Vec<_>>(),
                   "store": o.snap.store.iter().map(|e| json!({"index": e.index, "id": format!("{:x}", e.tag), "ttl_ns": e.ttl_ns})).collect::<Vec<_>>(),
                   "policy": o.snap.costs, "used": o.snap.used, "max_cost": o.snap.max_cost})
            };
        }
        // with colliding indices the policy (keyed by index only) legitimately re-charges and
        // un-charges the resident key: only the value-isolation clauses are decided there
        macro_rules! fail {
            ($prop:expr, $sig:expr, $($a:tt)*) => {
                if !collide || matches!($prop, "C18" | "C02" | "C03") || collision_sound($prop, $sig) {
                    rep.violate($prop, $sig, format!($($a)*), wit!())
                } else {
                    rep.count("ls_clauses_not_decided_under_index_collision");
                }
            };
        }
        macro_rules! also {
            ($prop:expr, $sig:expr, $msg:expr) => {
                if !collide || matches!($prop, "C18" | "C02" | "C03") || collision_sound($prop, $sig) {
                    rep.violate($prop, $sig, $msg, wit!())
                }
            };
        }
        if let Some(e) = &o.wait_err {
            fail!("C10", "wait/err-with-idle-processor", "wait() failed in lockstep (empty buffer, open cache): {e}");
        }
        if let Some(e) = &o.ret_err {
            fail!("C20", "op/unexpected-error", "{} returned an error in lockstep: {e}", step.short());
        }
        if o.handler_errors > 0 {
            fail!("C06", "processor/handler-error", "the processor reported {} handler errors", o.handler_errors);
        }

        // ------------------------------------------------------------------ step semantics
        let mut new_admission: Option<(u64, Ent)> = None; // (index, entry) of a New item handled in this step
        let mut vetoed_here: Option<u64> = None; // index of the entry whose replacement the validator vetoed in this step
        let mut step_is_update = false;
        if o.tick_at.is_none() {
            match step {
                Step::Insert { .. } | Step::InsertIfPresent { .. } => {
                    let (k, id, cost, aux, ttl_ns, only_update) = match step {
                        Step::Insert { k, id, cost, aux, ttl_ns } => (*k, *id, *cost, *aux, *ttl_ns, false),
                        Step::InsertIfPresent { k, id, cost, aux } => (*k, *id, *cost, *aux, 0u64, true),
                        _ => unreachable!(),
                    };
                    let (index, conflict) = kb.pair(k);
                    let eff = if cost == 0 { aux } else { cost };
                    let charge = eff.saturating_add(overhead);
                    let ret = o.ret_bool;
                    let owner = slots.get(&index).cloned();
                    match owner {
                        Some(cur) if cur.key == k => {
                            let ok = vld_decide(s.vld_mode, cur.id, cur.aux, id, aux);
                            if ok {
                                // update path: value and deadline replaced immediately
                                step_is_update = true;
                                out.updates += 1;
                                let was_expired = cur.expired(now);
                                if ret != Some(true) {
                                    if only_update && was_expired {
                                        rep.count("ls_if_present_on_expired_unswept_refused");
                                    } else {
                                        fail!(if only_update { "C09" } else { "C04" }, "update/returned-false", "{} on a resident key returned {ret:?}", step.short());
                                    }
                                }
                                if ret == Some(true) {
                                    if !o.update_path {
                                        fail!("C02", "update/not-immediate", "{}: the old value was not handed to on_exit inside the call (update not applied immediately)", step.short());
                                    }
                                    expect.insert(cur.id, Expect::Exit);
                                    let mut e = cur.clone();
                                    e.id = id;
                                    e.aux = aux;
                                    e.t_ins = now;
                                    e.d = ttl_ns;
                                    e.charge = charge;
                                    slots.insert(index, e);
                                }
                            } else if !only_update
                                && cur.expired(now)
                                && o.events.iter().any(|e| matches!(e.kind, EvKind::Cb { kind: CB_EVICT, id: i, .. } if i == cur.id))
                            {
                                // The validator refused to replace an entry whose TTL had already elapsed, and the
                                // processor reclaimed that entry before it handled the buffered item (a sweep on the
                                // admission path): the item then is the first insert of an absent key. Both this and
                                // "refused, the dead entry stays until the next tick" honour the veto.
                                rep.count("ls_vetoed_write_on_expired_entry_admitted_after_reclaim");
                                if ret != Some(true) {
                                    fail!("C04", "insert/returned-false", "{} returned {ret:?} with an empty buffer", step.short());
                                }
                                new_admission = Some((index, Ent { key: k, id, conflict, aux, charge, charge_known: true, t_ins: now, d: ttl_ns }));
                            } else {
                                // vetoed: value and TTL stay; the buffered item is refused later (and
                                // re-charges the resident key: an in-place cost update)
                                out.vetoes += 1;
                                step_is_update = true;
                                vetoed_ids.insert(cur.id);
                                vetoed_write_ids.insert(id);
                                vetoed_here = Some(index);
                                if only_update {
                                    if ret != Some(false) {
                                        fail!("C09", "veto/if-present-returned-true", "vetoed insert_if_present returned {ret:?}");
                                    }
                                    silently_droppable.insert(id);
                                } else {
                                    if ret != Some(true) {
                                        fail!("C04", "insert/returned-false", "{} returned {ret:?} with an empty buffer", step.short());
                                    }
                                    expect.insert(id, Expect::Reject { cost: None });
                                    if let Some(e) = slots.get_mut(&index) {
                                        e.charge_known = false;
                                    }
                                }
                                if o.update_path {
                                    fail!("C09", "veto/value-replaced", "{}: validator vetoed but a value was handed to on_exit", step.short());
                                }
                            }
                        }
                        Some(other) if !only_update && other.expired(now) && o.events.iter().any(|e| matches!(e.kind, EvKind::Cb { kind: CB_EVICT, id: i, .. } if i == other.id)) => {
                            // the colliding owner's TTL had elapsed and it was reclaimed before the buffered item
                            // was handled (a sweep on the admission path): first insert of an absent key
                            rep.count("ls_insert_on_index_of_expired_owner_admitted_after_reclaim");
                            if ret != Some(true) {
                                fail!("C04", "insert/returned-false", "{} returned {ret:?} with an empty buffer", step.short());
                            }
                            new_admission = Some((index, Ent { key: k, id, conflict, aux, charge, charge_known: true, t_ins: now, d: ttl_ns }));
                        }
                        Some(other) => {
                            // another key owns this index (collision): it must not be disturbed
                            step_is_update = true;
                            if only_update {
                                if ret != Some(false) {
                                    fail!("C18", "collision/if-present-true", "insert_if_present on a key whose index is owned by another key returned {ret:?}");
                                    also!("C09", "if-present/true-on-absent-colliding-key", format!("insert_if_present(k{k}) on an absent key (its index hash is shared with resident key {}) returned {ret:?}", other.key));
                                } else {
                                    false_if_present_ids.insert(id);
                                }
                                silently_droppable.insert(id);
                            } else {
                                // refused through on_reject, or dropped by the store's conflict check
                                silently_droppable.insert(id);
                                maybe_reject.insert(id);
                            }
                            if let Some(e) = slots.get_mut(&index) {
                                e.charge_known = false;
                            }
                        }
                        None => {
                            if only_update {
                                if ret != Some(false) {
                                    fail!("C09", "if-present/created-or-true-on-absent", "insert_if_present on an absent key returned {ret:?}");
                                } else {
                                    false_if_present_ids.insert(id);
                                }
                                silently_droppable.insert(id);
                                if o.events.iter().any(|e| matches!(e.kind, EvKind::Cb { .. })) {
                                    fail!("C09", "if-present/absent-not-unchanged", "insert_if_present on an absent key caused callbacks");
                                }
                            } else {
                                if ret != Some(true) {
                                    m_dropped_sets += 1;
                                    silently_droppable.insert(id);
                                    fail!("C04", "insert/returned-false", "{} returned {ret:?} with an empty buffer", step.short());
                                } else {
                                    new_admission = Some((index, Ent { key: k, id, conflict, aux, charge, charge_known: true, t_ins: now, d: ttl_ns }));
                                }
                            }
                        }
                    }
                }
                Step::Remove { k } => {
                    let (index, _) = kb.pair(*k);
                    if slots.get(&index).map_or(false, |e| e.key == *k) {
                        let e = slots.remove(&index).unwrap();
                        expect.insert(e.id, Expect::Exit);
                    } else if collide && slots.contains_key(&index) {
                        slots.get_mut(&index).unwrap().charge_known = false;
                    }
                }
                Step::GetMutWrite { k, new_id } => {
                    let (index, _) = kb.pair(*k);
                    m_lookups += 1;
                    ring_pending.push(index);
                    let vis = slots.get(&index).filter(|e| e.key == *k && !e.expired(now)).cloned();
                    let got = o.seen.clone().flatten();
                    match (vis, got) {
                        (Some(e), Some(g)) => {
                            if g.id != e.id || g.key != *k {
                                fail!("C02", "get_mut/wrong-value", "get_mut(k{k}) exposed #{:x} (key {}), model has #{:x}", g.id, g.key, e.id);
                            }
                            slots.get_mut(&index).unwrap().id = *new_id;
                            dead_ids.insert(e.id); // the old id no longer exists anywhere
                        }
                        (None, None) => {}
                        (Some(e), None) => fail!("C04", "get_mut/missing", "get_mut(k{k}) found nothing, model has #{:x}", e.id),
                        (None, Some(g)) if g.key != *k => {
                            fail!("C18", "collision/get_mut-exposed-other-key", "get_mut(k{k}) exposed (and wrote to) #{:x}, the value of key {}", g.id, g.key);
                            also!("C02", "lookup/foreign-value", format!("get_mut(k{k}) returned a value written under key {}", g.key));
                            // the in-place write went into the other key's entry
                            if let Some(e) = slots.get_mut(&index) {
                                dead_ids.insert(e.id);
                                e.id = *new_id;
                            }
                        }
                        (None, Some(g)) => fail!("C03", "get_mut/served-absent-or-expired", "get_mut(k{k}) exposed #{:x} although the model has no visible entry", g.id),
                    }
                }
                Step::Lookups { k, n } => {
                    let (index, _) = kb.pair(*k);
                    m_lookups += *n as u64;
                    for _ in 0..*n {
                        ring_pending.push(index);
                    }
                    out.lookups += *n as u64;
                }
                Step::Clear => {
                    out.clears += 1;
                    cleared_once = true;
                    for e in slots.values() {
                        cleared_ids.insert(e.id);
                    }
                    slots.clear();
                    // anything still expected is discarded by the clear
                    for (id, _) in expect.drain() {
                        cleared_ids.insert(id);
                    }
                    // the look-up made the instant clear() returned opens the new counting period
                    m_lookups = 1;
                    ring_pending.push(kb.pair(crate::script::after_clear_key(s.universe)).0);
                    m_dropped_sets = 0;
                    m_pop_rejects = 0;
                    m_pushed_keys = 0;
                    hist_expect.clear();
                    prev_excess = 0;
                    prev_resident_excess = 0;
                }
                Step::UpdateMaxCost { m } => {
                    max_cost = *m;
                    step_is_update = true;
                }
                Step::Advance { .. } | Step::Probe => {}
            }
        } else {
            out.ticks += 1;
        }

        // probe look-ups of this record (get + get_mut per key, in key order)
        for k in 0..s.universe {
            let (index, _) = kb.pair(k);
            ring_pending.push(index);
            ring_pending.push(index);
        }
        m_lookups += 2 * s.universe;

        // ------------------------------------------------------------------ policy observer events of this step
        // C15: once a batch has been flushed and processed the key's estimate reflects those look-ups.
        // The window counter of the estimator is shadowed exactly from the Applied events (emitted
        // under the policy lock), so aging resets are known; the estimates of this record were read
        // between est_seq.0 and est_seq.1 of the same logical clock.
        let (seq_lo, seq_hi) = o.probe.est_seq;
        let window_clean = !o.policy.iter().any(|pe| match pe {
            observe::Ev::Applied { seq, .. } | observe::Ev::Clear { seq, .. } => *seq > seq_lo && *seq < seq_hi,
            _ => false,
        });
        let mut est_checked = false;
        macro_rules! check_estimates {
            () => {
                if !est_checked && window_clean {
                    for k in 0..s.universe {
                        let (index, _) = kb.pair(k);
                        let n = applied_counts.get(&index).copied().unwrap_or(0);
                        let est = o.probe.est[k as usize];
                        rep.count("ls_estimate_checks");
                        if est < n.min(16) as i64 {
                            fail!("C15", "estimate/lookups-not-recorded", "estimate(k{k}) = {est} after {n} look-ups of it were applied since the last aging reset / clear (window {w_model} of {})", s.cfg.num_counters);
                        }
                    }
                }
                est_checked = true;
            };
        }
        for pe in o.policy.iter() {
            let pseq = match pe {
                observe::Ev::AddEnter { seq, .. } | observe::Ev::AddIter { seq, .. } | observe::Ev::AddReturn { seq, .. } | observe::Ev::Update { seq, .. } | observe::Ev::Remove { seq, .. }
                | observe::Ev::Clear { seq, .. } | observe::Ev::MaxCost { seq, .. } | observe::Ev::Push { seq, .. } | observe::Ev::Applied { seq, .. } => *seq,
            };
            if pseq > seq_lo {
                check_estimates!();
            }
            match pe {
                observe::Ev::AddReturn { outcome, .. } => {
                    if *outcome == 3 {
                        m_pop_rejects += 1;
                    }
                }
                observe::Ev::Push { keys, outcome, .. } => {
                    m_pushed_keys += keys.len() as u64;
                    // the batches are exactly the look-up stream, cut every buffer_items keys
                    let n = keys.len().min(ring_pending.len());
                    // the batch is the next `capa` look-ups; their order inside the batch is not part of the statement
                    let (mut want, mut got) = (ring_pending[..n].to_vec(), keys[..n].to_vec());
                    want.sort_unstable();
                    got.sort_unstable();
                    if keys.len() != capa || ring_pending.len() < keys.len() || want != got {
                        fail!("C15", "batch/not-the-lookup-stream", "flushed batch {keys:?} is not the next {capa} look-ups {:?}", &ring_pending[..n.min(8)]);
                        ring_pending.clear();
                    } else {
                        ring_pending.drain(..n);
                    }
                    match *outcome {
                        0 => {
                            kept_total += 1;
                        }
                        1 => {
                            rep.count("ls_batches_dropped");
                            let pending_upper = kept_total - applied_at_prev_push;
                            if !is_sync || pending_upper < 3 {
                                fail!("C15", "batch/dropped-without-full-queue", "a look-up batch was dropped although at most {pending_upper} batches were queued (queue holds 3)");
                            }
                        }
                        _ => fail!("C15", "batch/refused-on-open-cache", "push outcome {outcome} on an open cache"),
                    }
                    applied_at_prev_push = applied_total;
                }
                observe::Ev::Applied { keys, .. } => {
                    applied_total += 1;
                    for k in keys {
                        *applied_counts.entry(*k).or_insert(0) += 1;
                        applied_since_clear += 1;
                        w_model += 1;
                        if w_model >= s.cfg.num_counters as u64 {
                            w_model = 0;
                            applied_counts.clear();
                            rep.count("ls_aging_resets_modelled");
                        }
                    }
                }
                observe::Ev::Clear { .. } => {
                    w_model = 0;
                    applied_counts.clear();
                    applied_since_clear = 0;
                }
                _ => {}
            }
        }
        check_estimates!();
        // C11: after a clear() the estimator is that of a fresh cache: an estimate (read at the start of
        // this record) cannot exceed the number of look-ups applied to it since that clear
        if out.clears > 0 {
            for k in 0..s.universe {
                let est = o.probe.est[k as usize];
                rep.count("ls_c11_estimate_bound_checks");
                if est > applied_since_clear as i64 {
                    fail!("C11", "clear/popularity-survives", "estimate(k{k}) = {est}, but only {applied_since_clear} look-ups have been applied to the estimator since the last clear(): popularity recorded before the clear is still there");
                    break;
                }
            }
        }
        // ------------------------------------------------------------------ callbacks of this step
        // the charged total before this step, as the policy itself had it at the previous quiescent point
        let mut used_model: i128 = if oi == 0 { 0 } else { tr.obs[oi - 1].snap.used as i128 };
        if matches!(step, Step::Clear) { used_model = 0; }
        let prev_policy: HashMap<u64, i64> = if oi == 0 { HashMap::new() } else { tr.obs[oi - 1].snap.costs.iter().cloned().collect() };
        let mut admitted = new_admission.is_some();
        let mut room_evictions: Vec<(u64, i64)> = Vec::new();
        let mut unexpired_room_evictions = 0u64;
        for ev in o.events.iter() {
            match &ev.kind {
                EvKind::Cb { kind, id, key, index, conflict: _, cost } => {
                    if dead_ids.contains(id) {
                        fail!("C08", "callback/twice", "value #{id:x} (key {key}) reached a second callback (kind {kind})");
                        continue;
                    }
                    dead_ids.insert(*id);
                    match *kind {
                        CB_EXIT => match expect.remove(id) {
                            Some(Expect::Exit) => {}
                            other => fail!("C08", "callback/unexpected-exit", "on_exit(#{id:x}) for key {key}: model expected {other:?}"),
                        },
                        CB_REJECT => {
                            out.rejected += 1;
                            if let Some((_, ne)) = &new_admission {
                                if ne.id == *id {
                                    // refused: oversize, or no room and not popular enough
                                    admitted = false;
                                    let oversize = ne.charge > max_cost;
                                    let room = max_cost as i128 - (used_model + ne.charge as i128);
                                    if !oversize && room >= 0 {
                                        fail!("C04", "reject/with-room", "new key {key} (charge {}) refused although room {room} >= 0 (used {used_model}, max {max_cost})", ne.charge);
                                        also!("C07", "reject/with-room", format!("new key {key} refused with room {room}"));
                                    }
                                    if *cost != ne.charge {
                                        fail!("C16", "callback/reject-cost", "on_reject(#{id:x}) reported cost {cost}, the entry would have been charged {}", ne.charge);
                                    }
                                    continue;
                                }
                            }
                            if maybe_reject.remove(id) {
                                continue;
                            }
                            match expect.remove(id) {
                                Some(Expect::Reject { .. }) => {}
                                other => fail!("C08", "callback/unexpected-reject", "on_reject(#{id:x}) for key {key}: model expected {other:?}"),
                            }
                        }
                        CB_EVICT => {
                            let ent = slots.get(index).filter(|e| e.id == *id).cloned();
                            match ent {
                                None => fail!("C08", "callback/evict-of-nonresident", "on_evict(#{id:x}) for key {key}, which the model does not hold"),
                                Some(e) => {
                                    let t = o.tick_at.unwrap_or(now);
                                    let is_expired = e.deadline().map_or(false, |dl| dl <= t);
                                    if o.tick_at.is_some() {
                                        // swept by the cleanup tick: only expired entries, never early
                                        if !is_expired && e.d == 0 {
                                            also!("C03", "cleanup/no-ttl-entry-swept", format!("key {key} #{id:x} was inserted without TTL and has been swept by the tick at {t}: it became invisible because of time"));
                                        }
                                        if !is_expired {
                                            fail!("C05", "cleanup/removed-unexpired", "tick at {t} reclaimed key {key} #{id:x} whose deadline is {:?} (ttl {} ns)", e.deadline(), e.d);
                                            also!("C04", "cleanup/removed-unexpired", format!("key {key} swept before its deadline / without one"));
                                        } else {
                                            out.reclaimed += 1;
                                        }
                                    } else if let Some((_, ne)) = &new_admission {
                                        // evicted to make room for the new key of this step
                                        // (whether every one of these evictions was needed is decided after the step's
                                        // callbacks, independently of the order in which the victims are reported)
                                        let _ = ne;
                                        out.evicted_for_room += 1;
                                        room_evictions.push((*index, e.charge));
                                        if !is_expired {
                                            unexpired_room_evictions += 1;
                                        }
                                    } else if is_expired {
                                        // an entry whose TTL has elapsed may be reclaimed at any time, not only by a tick
                                        out.reclaimed += 1;
                                        rep.count("ls_expired_entries_reclaimed_outside_a_tick");
                                    } else {
                                        fail!("C04", "evict/without-cause", "on_evict(#{id:x}) for key {key} in a step that neither admits a new key nor ticks ({})", step.short());
                                    }
                                    if e.charge_known && charges_in_domain && *cost != e.charge {
                                        fail!("C16", "callback/evict-cost", "on_evict(#{id:x}) reported cost {cost}, the entry was charged {}", e.charge);
                                        if o.tick_at.is_some() {
                                            also!("C05", "cleanup/evict-cost", format!("expired key {key}: on_evict cost {cost} != charge {}", e.charge));
                                        }
                                    }
                                    if let Some(t_adm) = tracked.remove(index) {
                                        let secs = ((t.saturating_sub(t_adm)) / NS) as i64;
                                        *hist_expect.entry(hist_bucket(secs)).or_insert(0) += 1;
                                    }
                                    used_model -= prev_policy.get(index).copied().unwrap_or(e.charge) as i128;
                                    slots.remove(index);
                                }
                            }
                        }
                        _ => {}
                    }
                }
                EvKind::CbNone => fail!("C08", "callback/none-value", "a callback received no value"),
                EvKind::Drop { id } => {
                    if !(dead_ids.contains(id) || silently_droppable.contains(id) || cleared_ids.contains(id)) {
                        // dropped without callback: legal only for clear()/close(), see the end of the trace
                        if matches!(step, Step::Clear) || oi + 1 == tr.obs.len() {
                            cleared_ids.insert(*id);
                        } else {
                            fail!("C08", "value/dropped-without-callback", "value #{id:x} was dropped without a callback in step {}", step.short());
                        }
                    }
                }
                EvKind::Mutate { .. } => {}
            }
        }
        // C07 "evicted one at a time only while room is still lacking": whichever victim the policy took
        // last, room was still lacking without it; so with all victims gone the room may not reach the
        // cost of the dearest of them (the callbacks need not come in the order of selection)
        // (entries whose TTL had elapsed may leave in an admission step for either reason - as victims or
        // because the code reclaims what has expired when it needs room -, so a step whose victims had all
        // expired decides nothing, and they count among the candidates for "the one taken last")
        if let (Some((_, ne)), true) = (&new_admission, unexpired_room_evictions > 0) {
            let final_room = max_cost as i128 - (used_model + ne.charge as i128);
            let dearest = room_evictions.iter().map(|v| prev_policy.get(&v.0).copied().unwrap_or(v.1) as i128).max().unwrap_or(0);
            if final_room - dearest >= 0 {
                fail!("C07", "evict/although-room", "{} entries evicted for new key {} (charge {}): even without the dearest of them (charge {dearest}) room would have been {} >= 0", room_evictions.len(), ne.key, ne.charge, final_room - dearest);
                also!("C04", "evict/although-room", format!("{} entries evicted although everything fits", room_evictions.len()));
            }
        }
        if let Some((index, ne)) = new_admission.take() {
            if collide {
                admitted = o.snap.store.iter().any(|e| e.index == index && e.tag == ne.id);
                if !admitted {
                    silently_droppable.insert(ne.id);
                }
            }
            if admitted {
                let oversize = ne.charge > max_cost;
                if oversize {
                    fail!("C01", "admit/oversize", "key {} admitted with charge {} > max_cost {max_cost}", ne.key, ne.charge);
                }
                let room = max_cost as i128 - (used_model + ne.charge as i128);
                if room < 0 && !oversize {
                    fail!("C01", "admit/without-room", "key {} admitted with room {room} < 0 (used {used_model}, charge {}, max {max_cost})", ne.key, ne.charge);
                    also!("C07", "admit/without-room", format!("key {} admitted with room {room} < 0", ne.key));
                }
                tracked.insert(index, now);
                slots.insert(index, ne);
            }
        }
        // replaced / removed / refused values must have reached their callback by now (quiescent)
        if !expect.is_empty() {
            let missing: Vec<String> = expect.iter().map(|(id, e)| format!("#{id:x}:{e:?}")).collect();
            fail!("C08", "callback/missing", "values without their callback at quiescence: {missing:?}");
            for (id, _) in expect.drain() {
                dead_ids.insert(id);
            }
        }

        // ------------------------------------------------------------------ bounded-delay reclaim (C05)
        if let Some(t) = o.tick_at {
            for e in slots.values() {
                if let Some(dl) = e.deadline() {
                    if dl + NS + interval <= t {
                        fail!("C05", "cleanup/not-reclaimed-in-bound", "key {} #{:x}: deadline {dl}, tick at {t} (interval {} ms): still resident after deadline + 1 s + interval", e.key, e.id, interval / 1_000_000);
                    }
                }
            }
        }

        // ------------------------------------------------------------------ snapshot vs model
        let store: BTreeMap<u64, &stretto::verif::Entry> = o.snap.store.iter().map(|e| (e.index, e)).collect();
        let policy: BTreeMap<u64, i64> = o.snap.costs.iter().cloned().collect();
        for (index, e) in slots.iter() {
            match store.get(index) {
                None => {
                    let (p, sig) = if e.expired(now) { ("C05", "store/expired-entry-vanished-without-callback") } else { ("C04", "store/entry-lost") };
                    fail!(p, sig, "key {} #{:x} is in the model but not in the store", e.key, e.id);
                }
                Some(se) => {
                    if se.tag != e.id {
                        fail!("C02", "store/wrong-value", "key {}: store holds #{:x}, model #{:x}", e.key, se.tag, e.id);
                    }
                    if se.ttl_ns != e.d || (e.d != 0 && se.created_ns != e.t_ins) {
                        fail!("C03", "store/deadline-not-replaced", "key {}: stored (ttl {} ns, created {}), model (ttl {} ns, inserted {})", e.key, se.ttl_ns, se.created_ns, e.d, e.t_ins);
                    }
                }
            }
        }
        // C09, exact: the step of a vetoed write leaves the entry (value, TTL) and its place in the
        // expiry index exactly as the previous quiescent snapshot had them
        if let (Some(index), true) = (vetoed_here, oi > 0) {
            let before = &tr.obs[oi - 1].snap;
            let ent = |sn: &stretto::verif::Snapshot| sn.store.iter().find(|e| e.index == index).map(|e| (e.tag, e.conflict, e.ttl_ns, e.created_ns));
            let filed = |sn: &stretto::verif::Snapshot| {
                let mut v: Vec<(i64, u64)> = sn.buckets.iter().flat_map(|(b, ks)| ks.iter().filter(|(k, _)| *k == index).map(move |(_, c)| (*b, *c))).collect();
                v.sort();
                v
            };
            rep.count("ls_veto_steps_compared_with_previous_snapshot");
            if ent(before) != ent(&o.snap) {
                also!("C09", "veto/entry-changed", format!("{}: the validator vetoed this write, yet the resident entry changed from {:x?} to {:x?} (value id, conflict, ttl ns, created ns)", step.short(), ent(before), ent(&o.snap)));
            }
            if filed(before) != filed(&o.snap) {
                also!("C09", "veto/expiry-index-changed", format!("{}: the validator vetoed this write, yet the entry's place in the expiry buckets changed from {:?} to {:?} (bucket, conflict)", step.short(), filed(before), filed(&o.snap)));
            }
        }
        for (_, se) in store.iter() {
            if vetoed_write_ids.contains(&se.tag) {
                also!("C09", "veto/vetoed-value-resident", format!("the store holds #{:x}, the value of a write the validator vetoed", se.tag));
            }
            if false_if_present_ids.contains(&se.tag) {
                also!("C09", "if-present/value-of-false-call-resident", format!("the store holds #{:x}, the value of an insert_if_present call that returned false", se.tag));
            }
        }
        for (index, se) in store.iter() {
            if !slots.contains_key(index) {
                fail!("C11", "store/unexpected-entry", "store holds index {index} (#{:x}) which the model does not (removed, cleared or never admitted)", se.tag);
            }
        }
        if o.snap.len != o.snap.store.len() {
            fail!("C06", "len/disagrees-with-store", "len() = {} but the store holds {}", o.snap.len, o.snap.store.len());
        }
        if !collide {
            let sk: Vec<u64> = store.keys().cloned().collect();
            let pk: Vec<u64> = policy.keys().cloned().collect();
            if sk != pk {
                let (p, sig) = if matches!(step, Step::Clear) { ("C11", "clear/store-policy-differ") } else if o.tick_at.is_some() { ("C05", "cleanup/charge-not-released") } else { ("C06", "quiescent/store-policy-differ") };
                fail!(p, sig, "store keys {sk:?} != policy keys {pk:?}");
                if p != "C06" {
                    also!("C06", "quiescent/store-policy-differ", format!("store keys {sk:?} != policy keys {pk:?}"));
                }
            }
            let sum: i128 = policy.values().map(|c| *c as i128).sum();
            if sum != o.snap.used as i128 {
                fail!("C01", "used/not-sum-of-charges", "used {} != sum of per-key charges {sum}", o.snap.used);
            }
            // the charges the policy would hold without clamping: the model's, or what the policy itself
            // reports where the model does not know the charge (a vetoed write re-charges the resident key)
            let model_sum: i128 = slots.iter().map(|(index, e)| (e.charge as i128).max(policy.get(index).copied().unwrap_or(0) as i128)).sum();
            if model_sum > i64::MAX as i128 {
                charges_in_domain = false;
                out.out_of_domain = true;
            }
            if charges_in_domain {
                for (index, e) in slots.iter() {
                    if let Some(pc) = policy.get(index) {
                        if e.charge_known && *pc != e.charge {
                            fail!("C16", "charge/mismatch", "key {}: charged {pc}, expected {} (overhead {overhead})", e.key, e.charge);
                            // C09: on a resident key insert_if_present is an update of value *and cost*
                            if let Step::InsertIfPresent { k, .. } = step {
                                if *k == e.key && o.ret_bool == Some(true) && o.tick_at.is_none() {
                                    also!("C09", "if-present/cost-not-updated", format!("{} returned true, yet key {} is charged {pc} instead of {} (overhead {overhead})", step.short(), e.key, e.charge));
                                }
                            }
                        }
                    }
                }
                // C01: the excess over max_cost may only grow through updates or a lowered max_cost
                let excess = (o.snap.used as i128 - o.snap.max_cost as i128).max(0);
                if excess > prev_excess && !step_is_update && !matches!(step, Step::Clear) {
                    fail!("C01", "used/over-max-without-update", "used {} exceeds max_cost {} by {excess} (was {prev_excess}) after {}", o.snap.used, o.snap.max_cost, step.short());
                }
                prev_excess = excess;
                // ... and the same for the cost of what is really resident: an entry that is resident
                // but no longer charged (its charge as last known to the model) still occupies the cache
                let resident_cost: i128 = o.snap.store.iter().map(|e| policy.get(&e.index).map(|c| *c as i128).or_else(|| slots.get(&e.index).map(|m| m.charge as i128)).unwrap_or(0)).sum();
                let rexcess = (resident_cost - o.snap.max_cost as i128).max(0);
                if rexcess > prev_resident_excess && rexcess > excess && !step_is_update && !matches!(step, Step::Clear) {
                    fail!("C01", "resident-cost/over-max-without-update", "the entries resident in the store cost {resident_cost} in total (charged or as last charged), max_cost is {} (policy says used {}) after {}", o.snap.max_cost, o.snap.used, step.short());
                }
                prev_resident_excess = rexcess;
            }
            if o.snap.max_cost != max_cost {
                fail!("C01", "max_cost/not-stored", "max_cost() = {} after update_max_cost({max_cost})", o.snap.max_cost);
            }
        }
        if slots.is_empty() && (o.snap.used != 0 || o.snap.len != 0) && !collide {
            fail!("C11", "empty/used-or-len-nonzero", "model is empty but used = {}, len = {}", o.snap.used, o.snap.len);
        }

        // ------------------------------------------------------------------ look-ups vs model
        for k in 0..s.universe {
            let (index, _) = kb.pair(k);
            let vis = slots.get(&index).filter(|e| e.key == k && !e.expired(now));
            let (g, t, gm) = (&o.probe.get[k as usize], &o.probe.ttl[k as usize], &o.probe.get_mut[k as usize]);
            for (what, got) in [("get", g), ("get_mut", gm)] {
                if let Some(seen) = got {
                    if seen.key != k {
                        fail!("C02", "lookup/foreign-value", "{what}(k{k}) returned a value written under key {}", seen.key);
                        also!("C18", "lookup/foreign-value", format!("{what}(k{k}) returned the value of key {}", seen.key));
                    }
                    if dead_ids.contains(&seen.id) {
                        fail!("C08", "lookup/returned-dead-value", "{what}(k{k}) returned #{:x}, which was already handed to a callback", seen.id);
                    }
                }
                match (vis, got) {
                    (Some(e), Some(seen)) => {
                        if seen.id != e.id {
                            fail!("C02", "lookup/not-last-written", "{what}(k{k}) returned #{:x}, the last value written is #{:x}", seen.id, e.id);
                        }
                    }
                    (Some(e), None) => {
                        let p = if collide { "C18" } else { "C04" };
                        fail!(p, "lookup/lost", "{what}(k{k}) returned nothing; #{:x} was inserted at {} with ttl {} ns and neither removed, cleared nor expired (now {now})", e.id, e.t_ins, e.d);
                    }
                    (None, Some(seen)) => {
                        let ent = slots.get(&index);
                        let (p, sig) = match ent {
                            Some(e) if e.key == k => ("C03", "lookup/served-after-ttl"),
                            _ => ("C02", "lookup/stale-after-remove-or-clear"),
                        };
                        fail!(p, sig, "{what}(k{k}) returned #{:x} although the model has no visible entry (now {now})", seen.id);
                    }
                    (None, None) => {}
                }
            }
            match (vis, t) {
                (Some(e), Some(ttl)) => {
                    let want = if e.d == 0 { Duration::MAX } else { Duration::from_nanos(e.t_ins + e.d - now) };
                    if *ttl != want {
                        fail!("C03", "ttl/wrong-remaining-time", "get_ttl(k{k}) = {ttl:?}, expected {want:?} (ttl {} ns, inserted {}, now {now})", e.d, e.t_ins);
                    }
                    if let Some(seen) = g {
                        if seen.ttl != want {
                            fail!("C03", "ttl/valueref-ttl", "ValueRef::ttl(k{k}) = {:?}, expected {want:?}", seen.ttl);
                        }
                    }
                }
                (Some(_), None) => fail!("C03", "ttl/none-for-visible", "get_ttl(k{k}) = None for a visible entry"),
                (None, Some(ttl)) => {
                    fail!("C03", "ttl/reported-after-expiry-or-absent", "get_ttl(k{k}) = {ttl:?} although no visible entry exists");
                    if let Some(owner) = slots.get(&index).filter(|e| e.key != k) {
                        also!("C18", "collision/get_ttl-of-other-key", format!("get_ttl(k{k}) = {ttl:?}: k{k} is absent, the TTL reported is that of key {} (same index hash, other conflict hash)", owner.key));
                    }
                }
                (None, None) => {}
            }
        }

        // ------------------------------------------------------------------ metrics (C17) and look-up accounting (C15)
        if let Some(m) = &o.metrics {
            let [hits, misses, kadd, _kupd, kev, cadd, cev, sdrop, srej, gdrop, gkept] = *m;
            let probe_hits: u64 = 0;
            let _ = probe_hits;
            if hits + misses != m_lookups {
                fail!("C17", "metrics/hits-plus-misses", "hits {hits} + misses {misses} != {m_lookups} look-ups made since the last clear");
            }
            if !collide {
                if kadd.wrapping_sub(kev) != policy.len() as u64 {
                    fail!("C17", "metrics/keys-added-minus-evicted", "keys_added {kadd} - keys_evicted {kev} != {} charged entries", policy.len());
                }
                if cadd.wrapping_sub(cev) != o.snap.used as u64 {
                    fail!("C17", "metrics/cost-added-minus-evicted", "cost_added {cadd} - cost_evicted {cev} != used {}", o.snap.used);
                }
                if kadd.wrapping_sub(kev) != policy.len() as u64 || cadd.wrapping_sub(cev) != o.snap.used as u64 {
                    if !cleared_once {
                        conservation_failed_before_clear = true;
                    } else if !conservation_failed_before_clear {
                        also!("C11", "clear/conservation-lost-after-clear", format!("keys_added {kadd} - keys_evicted {kev} vs {} charged entries, cost_added {cadd} - cost_evicted {cev} vs used {}: the balances held at every record before the first clear() and fail after it: the cleared cache does not count like a fresh one", policy.len(), o.snap.used));
                    }
                } else if cleared_once {
                    rep.count("c11_conservation_checks_after_a_clear");
                }
            }
            if sdrop != m_dropped_sets {
                fail!("C17", "metrics/sets-dropped", "sets_dropped {sdrop} != {m_dropped_sets} inserts that returned false");
            }
            if srej != m_pop_rejects {
                fail!("C17", "metrics/sets-rejected", "sets_rejected {srej} != {m_pop_rejects} popularity rejections observed in the policy");
            }
            if gkept + gdrop != m_pushed_keys {
                fail!("C15", "metrics/gets-kept-plus-dropped", "gets_kept {gkept} + gets_dropped {gdrop} != {m_pushed_keys} keys in flushed batches");
                also!("C17", "metrics/gets-kept-plus-dropped", format!("gets_kept {gkept} + gets_dropped {gdrop} != {m_pushed_keys}"));
            }
            if let Some(r) = o.ratio {
                let want = if hits + misses == 0 { 0.0 } else { hits as f64 / (hits + misses) as f64 };
                if (r - want).abs() > 1e-12 {
                    fail!("C17", "metrics/ratio", "ratio() = {r}, hits/(hits+misses) = {want}");
                }
            }
            if matches!(step, Step::Clear) && o.tick_at.is_none() {
                // right after clear(): everything restarts from zero (only this record's probe look-ups counted)
                if kadd != 0 || kev != 0 || cadd != 0 || cev != 0 || sdrop != 0 || srej != 0 {
                    fail!("C11", "clear/metrics-not-reset", "after clear(): keys_added {kadd}, keys_evicted {kev}, cost_added {cadd}, cost_evicted {cev}, sets_dropped {sdrop}, sets_rejected {srej}");
                    also!("C17", "clear/metrics-not-reset", "counters not zero after clear()".into());
                }
            }
            if let Some(h) = &o.hist {
                match parse_hist(h) {
                    None => fail!("C17", "histogram/unparseable", "life-expectancy histogram could not be parsed: {h:?}"),
                    Some((count, buckets)) => {
                        let want: i64 = hist_expect.values().sum();
                        let bsum: i64 = buckets.values().sum();
                        if count != bsum {
                            fail!("C17", "histogram/count-vs-buckets", "histogram Count {count} != sum of buckets {bsum}");
                        }
                        if count != want {
                            fail!("C17", "histogram/samples", "life-expectancy histogram has {count} samples, {want} tracked entries were evicted or expired since the last clear");
                        } else if buckets != hist_expect.iter().filter(|(_, v)| **v != 0).map(|(k, v)| (*k, *v)).collect::<BTreeMap<_, _>>() {
                            fail!("C17", "histogram/bucket-placement", "histogram buckets {buckets:?}, expected {hist_expect:?}");
                        }
                    }
                }
            }
        }
    }
    if let Some(e) = &tr.close_err {
        rep.violate("C12", "close/error", format!("close() returned an error after a lockstep history: {e}"), s.describe(s.steps.len()));
    }
    crate::val::INDEX_BASE.store(0, std::sync::atomic::Ordering::SeqCst);
    out
}
