//! vcheck: runtime monitors for stretto. One process = one shard of one engine for one property.
mod common;
mod driver;
mod engines;
mod oracle;
mod policylog;
mod script;
mod supervise;
mod val;

use common::{Report, Rng};

fn arg(args: &[String], name: &str) -> Option<String> {
    args.iter().position(|a| a == name).and_then(|i| args.get(i + 1).cloned())
}

fn main() {
    let args: Vec<String> = std::env::args().collect();
    if args.len() < 2 {
        eprintln!("usage: vcheck <engine> --prop Cxx --tier quick|thorough --seed N --shard i --shards n --out file [--replay file]");
        std::process::exit(2);
    }
    let engine = args[1].clone();
    let prop = arg(&args, "--prop").unwrap_or_default();
    let tier = arg(&args, "--tier").unwrap_or_else(|| "quick".into());
    let seed: u64 = arg(&args, "--seed").and_then(|s| s.parse().ok()).unwrap_or(1);
    let shard: u64 = arg(&args, "--shard").and_then(|s| s.parse().ok()).unwrap_or(0);
    let shards: u64 = arg(&args, "--shards").and_then(|s| s.parse().ok()).unwrap_or(1);
    let scale: f64 = arg(&args, "--scale").and_then(|s| s.parse().ok()).unwrap_or(1.0);
    let out = arg(&args, "--out");
    let replay = arg(&args, "--replay");

    common::install_panic_monitor();
    let mut rep = Report::new(&engine, &prop, seed, shard, &tier);
    let rng = Rng::new(seed).derive(shard.wrapping_mul(0x9e37_79b9) ^ common::hash_of(&(engine.as_str(), prop.as_str())));
    let ctx = engines::Ctx {
        prop: prop.clone(),
        tier: tier.clone(),
        shard,
        shards,
        scale,
        replay,
        flavors: arg(&args, "--flavors"),
        quick_n: arg(&args, "--quick-n").and_then(|s| s.parse().ok()),
        thorough_n: arg(&args, "--thorough-n").and_then(|s| s.parse().ok()),
        profile: arg(&args, "--profile"),
        mode: arg(&args, "--mode"),
    };
    let t0 = std::time::Instant::now();
    engines::dispatch(&engine, &ctx, rng, &mut rep);
    rep.add("wall_ms", t0.elapsed().as_millis() as u64);
    let js = serde_json::to_string(&rep.to_json()).unwrap();
    match out {
        Some(p) => std::fs::write(p, js).unwrap(),
        None => println!("{js}"),
    }
    // exit code is informational only; the driver decides from the report
    std::process::exit(0);
}
