//! Component-level monitors through `stretto::verif::facade`: C13 (sketch / TinyLFU), C14 (Bloom),
//! C18 a/b (key builders), C07 (policy add()).
use super::Ctx;
use crate::common::{fold_panics, hash_of, Report, Rng};
use serde_json::json;
use std::collections::{BTreeMap, HashMap, HashSet};
use std::panic::{catch_unwind, AssertUnwindSafe};
use stretto::verif::facade::{Bloom, CountMinRow, CountMinSketch, Policy, TinyLfu};
use stretto::verif::{counters, observe};

// =============================================================================================
// C13
// =============================================================================================

fn nibble_totals(rows: &[Vec<u8>]) -> Vec<u64> {
    rows.iter()
        .map(|r| r.iter().map(|b| (b & 0x0f) as u64 + (b >> 4) as u64).sum())
        .collect()
}

#[derive(Clone, Copy, Debug)]
enum Pattern {
    Uniform,
    Few,
    HighBits,
    LowBits,
    MidBits,
    Extremes,
    Sequential,
}
const PATTERNS: [Pattern; 7] = [
    Pattern::Uniform,
    Pattern::Few,
    Pattern::HighBits,
    Pattern::LowBits,
    Pattern::MidBits,
    Pattern::Extremes,
    Pattern::Sequential,
];

fn gen_key(p: Pattern, rng: &mut Rng, universe: u64, base: u64) -> u64 {
    let i = rng.below(universe.max(1));
    match p {
        Pattern::Uniform => crate::common::splitmix(base ^ i),
        Pattern::Few => crate::common::splitmix(base ^ (i % 4)),
        Pattern::HighBits => (i + 1) << 56 | (base & 0xff),
        Pattern::LowBits => i,
        Pattern::MidBits => (i + 1) << 28,
        Pattern::Extremes => *rng.pick(&[0u64, u64::MAX, 1, 1 << 63, u64::MAX - 1, i]),
        Pattern::Sequential => base.wrapping_add(i),
    }
}

fn widths(ctx: &Ctx, rng: &mut Rng, case_no: u64) -> usize {
    // every width 1..=70 is visited in turn; larger ones are mixed in
    let extra = [100usize, 127, 128, 129, 1000, 4096, 5000];
    let k = case_no % 78;
    if k < 70 {
        (k + 1) as usize
    } else if ctx.thorough() && rng.chance(1, 8) {
        65_536
    } else {
        extra[(k - 70) as usize % extra.len()]
    }
}

pub fn run_sketch(ctx: &Ctx, mut rng: Rng, rep: &mut Report) {
    let cases = ctx.n(700, 12_000);
    for case_no in 0..cases {
        let mut crng = rng.derive(case_no);
        let width = widths(ctx, &mut crng, case_no + ctx.shard * 13);
        let pattern = PATTERNS[(crng.below(PATTERNS.len() as u64)) as usize];
        let kind = case_no % 4; // 0,1,2: TinyLFU, 3: raw sketch / row
        let desc = json!({"case": case_no, "num_counters": width, "pattern": format!("{pattern:?}"), "kind": if kind < 3 {"tinylfu"} else {"sketch+row"}});
        let mut local = Report::default();
        let r = catch_unwind(AssertUnwindSafe(|| {
            if kind < 3 {
                tinylfu_case(width, pattern, &mut crng, &mut local, &desc)
            } else {
                sketch_case(width, pattern, &mut crng, &mut local, &desc);
                row_case(width, &mut crng, &mut local, &desc);
            }
        }));
        merge(rep, local);
        if r.is_err() {
            rep.count("cases_ended_by_panic");
        }
        fold_panics(rep, &["C13"], &desc);
        let nontrivial = true;
        rep.case(nontrivial, hash_of(&(width, format!("{pattern:?}"), kind, crng.0)));
        if case_no < 2 {
            rep.sample(desc);
        }
    }
    // zero width must be refused, not accepted
    if CountMinSketch::new(0).is_ok() {
        rep.violate("C13", "sketch/zero-width-accepted", "CountMinSketch::new(0) succeeded".into(), json!({}));
    }
    rng.next();
}

fn merge(into: &mut Report, from: Report) {
    into.merge(from)
}

fn tinylfu_case(num_counters: usize, pattern: Pattern, rng: &mut Rng, rep: &mut Report, desc: &serde_json::Value) {
    let mut t = match TinyLfu::new(num_counters) {
        Ok(t) => t,
        Err(e) => {
            rep.violate("C13", "tinylfu/new-refused", format!("TinyLfu::new({num_counters}) failed: {e}"), desc.clone());
            return;
        }
    };
    let base = rng.next();
    let universe = *rng.pick(&[1u64, 2, 3, 8, 40, 400]);
    let probes: Vec<u64> = (0..16).map(|_| rng.next()).collect();
    // fresh estimator: everything is zero
    for k in probes.iter().chain([0u64, u64::MAX].iter()) {
        let e = t.estimate(*k);
        rep.count("c13_fresh_estimates");
        if e != 0 {
            rep.violate("C13", "fresh-nonzero", format!("fresh estimator: estimate({k:#x}) = {e}"), desc.clone());
        }
    }
    let mut n: HashMap<u64, u64> = HashMap::new(); // records since the last reset/clear
    let mut last_est: HashMap<u64, i64> = HashMap::new();
    let mut w: usize = 0;
    let steps = if num_counters <= 8 { 60 + rng.below(200) } else { 200 + rng.below(1200) } as usize;
    let check_rows_every = if num_counters <= 256 { 1 } else { 32 };
    let mut rows_prev = t.sketch_rows();
    let mut recs_since_rows = 0u64;
    let mut trail: Vec<String> = Vec::new();
    macro_rules! fail {
        ($sig:expr, $($a:tt)*) => {{
            let msg = format!($($a)*);
            let mut d = desc.clone();
            d["trail_tail"] = json!(trail.iter().rev().take(12).rev().collect::<Vec<_>>());
            rep.violate("C13", $sig, msg, d);
        }};
    }
    for step in 0..steps {
        let op = rng.below(100);
        if op < 2 {
            t.clear();
            trail.push("clear".into());
            rep.count("c13_clears");
            n.clear();
            last_est.clear();
            w = 0;
            for k in probes.iter() {
                if t.estimate(*k) != 0 {
                    fail!("clear-nonzero", "estimate({k:#x}) != 0 after clear()");
                }
            }
            let rows = t.sketch_rows();
            if nibble_totals(&rows).iter().any(|s| *s != 0) || t.door_bits_set() != 0 {
                fail!("clear-nonzero", "clear() left counters or doorkeeper bits set");
            }
            rows_prev = rows;
            recs_since_rows = 0;
            continue;
        }
        if op < 8 && num_counters >= 2 {
            // a batch through increments(): the aging reset must still fall on the exact record
            let batch: Vec<u64> = (0..rng.range(2, 9)).map(|_| gen_key(pattern, rng, universe, base)).collect();
            let mut reset_inside = false;
            let mut after: HashMap<u64, u64> = n.clone();
            let mut w2 = w;
            for k in batch.iter() {
                if w2 + 1 >= num_counters {
                    w2 = 0;
                    after.clear();
                    reset_inside = true;
                } else {
                    w2 += 1;
                    *after.entry(*k).or_insert(0) += 1;
                }
            }
            t.increments(batch.clone());
            rep.count("c13_batches");
            rep.add("c13_records", batch.len() as u64);
            trail.push(format!("increments({} keys{})", batch.len(), if reset_inside { ", window boundary inside" } else { "" }));
            w = w2;
            n = after;
            if reset_inside {
                rep.count("c13_batches_crossing_a_reset");
                last_est.clear();
                if w == 0 && t.door_bits_set() != 0 {
                    fail!("reset-doorkeeper-not-emptied", "a batch ended exactly on the {}-th record but the doorkeeper still has {} bits", num_counters, t.door_bits_set());
                }
            }
            for (kk, cnt) in n.iter() {
                let e = t.estimate(*kk);
                if e < (*cnt).min(16) as i64 {
                    fail!("undercount", "estimate({kk:#x}) = {e} after {cnt} records since the aging reset{} (batch path)", if reset_inside { " that fell inside the last batch" } else { "" });
                }
            }
            let (samples, wnow) = t.window();
            if wnow != w || samples != num_counters {
                // internal representation: measured only; the behavioural clauses at the next expected reset decide
                rep.count("c13_window_counter_differs_from_shadow_measured_only");
            }
            rows_prev = t.sketch_rows();
            recs_since_rows = 0;
            continue;
        }
        // one record
        let k = gen_key(pattern, rng, universe, base);
        let will_reset = w + 1 >= num_counters;
        let before_sketch: Vec<(u64, i64)> = if will_reset {
            n.keys().take(24).map(|k| (*k, t.sketch_estimate(*k))).chain(std::iter::once((k, t.sketch_estimate(k)))).collect()
        } else {
            Vec::new()
        };
        if will_reset && recs_since_rows > 0 {
            rows_prev = t.sketch_rows();
            recs_since_rows = 0;
        }
        t.increment(k);
        rep.count("c13_records");
        if trail.len() > 64 {
            trail.drain(..32);
        }
        trail.push(format!("inc({k:#x})"));
        if will_reset {
            // the statement: after every num_counters recorded accesses all counters are halved
            // and the doorkeeper is emptied
            rep.count("c13_resets_expected");
            w = 0;
            n.clear();
            last_est.clear();
            let rows = t.sketch_rows();
            if t.door_bits_set() != 0 {
                fail!("reset-doorkeeper-not-emptied", "doorkeeper still has {} bits after the {}-th record", t.door_bits_set(), num_counters);
            }
            for (ri, (old, new)) in rows_prev.iter().zip(rows.iter()).enumerate() {
                let mut odd = 0;
                for (bi, (o, nn)) in old.iter().zip(new.iter()).enumerate() {
                    for sh in [0u8, 4] {
                        let (ov, nv) = ((o >> sh) & 0xf, (nn >> sh) & 0xf);
                        if nv == ov >> 1 {
                            continue;
                        }
                        if nv == (ov + 1) >> 1 {
                            odd += 1;
                            continue;
                        }
                        fail!("reset-not-halved", "row {ri} cell {} was {ov}, is {nv} after the aging reset", bi * 2 + (sh as usize / 4));
                    }
                }
                if odd > 1 {
                    fail!("reset-not-halved", "row {ri}: {odd} cells deviate from plain halving after the reset");
                }
            }
            for (kk, b) in before_sketch.iter() {
                let e = t.estimate(*kk);
                if !(e == b >> 1 || e == (b + 1) >> 1) {
                    fail!("reset-estimate", "estimate({kk:#x}) = {e} after reset, sketch count before was {b}");
                }
            }
            rows_prev = rows;
            recs_since_rows = 0;
            let win = t.window();
            if win.1 != 0 {
                rep.count("c13_window_not_zero_after_expected_reset");
            }
            continue;
        }
        w += 1;
        *n.entry(k).or_insert(0) += 1;
        recs_since_rows += 1;
        let e = t.estimate(k);
        let nk = n[&k];
        rep.count("c13_bound_checks");
        if e < nk.min(16) as i64 {
            fail!("undercount", "estimate({k:#x}) = {e} after {nk} records since the last reset (num_counters {num_counters})");
        }
        if e > 16 {
            fail!("over-limit", "estimate({k:#x}) = {e} exceeds 15 + 1");
        }
        // monotone between resets, for recorded and untouched keys alike
        if step % 8 == 0 || n.len() <= 8 {
            for kk in n.keys().take(32).chain(probes.iter().take(4)) {
                let cur = t.estimate(*kk);
                rep.count("c13_monotone_checks");
                if let Some(prev) = last_est.get(kk) {
                    if cur < *prev {
                        fail!("estimate-decreased", "estimate({kk:#x}) fell from {prev} to {cur} without a reset");
                    }
                }
                let cnt = n.get(kk).copied().unwrap_or(0);
                if cur < cnt.min(16) as i64 {
                    fail!("undercount", "estimate({kk:#x}) = {cur} < min({cnt},16)");
                }
            }
            let snapshot: Vec<(u64, i64)> = n.keys().take(32).chain(probes.iter().take(4)).map(|kk| (*kk, t.estimate(*kk))).collect();
            for (kk, v) in snapshot {
                last_est.insert(kk, v);
            }
        }
        if step % check_rows_every == 0 {
            let rows = t.sketch_rows();
            let (a, b) = (nibble_totals(&rows_prev), nibble_totals(&rows));
            rep.count("c13_row_total_checks");
            for (ri, (x, y)) in a.iter().zip(b.iter()).enumerate() {
                if y < x {
                    fail!("counter-wrapped-or-spilled", "row {ri}: total of counters fell from {x} to {y} without a reset");
                }
                if *y > x + recs_since_rows {
                    fail!("counter-wrapped-or-spilled", "row {ri}: total of counters rose by {} with {recs_since_rows} records", y - x);
                }
            }
            rows_prev = rows;
            recs_since_rows = 0;
        }
    }
    rep.count("c13_tinylfu_sequences");
}

fn sketch_case(ctrs: usize, pattern: Pattern, rng: &mut Rng, rep: &mut Report, desc: &serde_json::Value) {
    let mut s = match CountMinSketch::new(ctrs as u64) {
        Ok(s) => s,
        Err(e) => {
            rep.violate("C13", "sketch/new-refused", format!("CountMinSketch::new({ctrs}) failed: {e}"), desc.clone());
            return;
        }
    };
    let base = rng.next();
    let mut n: HashMap<u64, u64> = HashMap::new();
    for step in 0..(100 + rng.below(600)) {
        match rng.below(60) {
            0 => {
                let before = s.rows();
                s.reset();
                rep.count("c13_sketch_resets");
                for (ri, (o, nn)) in before.iter().zip(s.rows().iter()).enumerate() {
                    for (bi, (a, b)) in o.iter().zip(nn.iter()).enumerate() {
                        if (b & 0xf) != (a & 0xf) >> 1 || (b >> 4) != (a >> 4) >> 1 {
                            rep.violate("C13", "sketch/reset-not-halved", format!("row {ri} byte {bi}: {a:#04x} -> {b:#04x}"), desc.clone());
                        }
                    }
                }
                for v in n.values_mut() {
                    *v = 0; // lower bound restarts
                }
            }
            1 => {
                s.clear();
                n.clear();
                if nibble_totals(&s.rows()).iter().any(|t| *t != 0) {
                    rep.violate("C13", "sketch/clear-nonzero", "clear() left counters".into(), desc.clone());
                }
            }
            _ => {
                let k = gen_key(pattern, rng, 24, base);
                s.increment(k);
                *n.entry(k).or_insert(0) += 1;
                let e = s.estimate(k);
                rep.count("c13_sketch_bound_checks");
                if e < n[&k].min(15) as i64 || e > 15 {
                    rep.violate("C13", "sketch/undercount", format!("step {step}: estimate({k:#x}) = {e}, recorded {} since reset", n[&k]), desc.clone());
                }
            }
        }
    }
    let _ = s.seeds();
    let _ = s.mask();
}

fn row_case(width: usize, rng: &mut Rng, rep: &mut Report, desc: &serde_json::Value) {
    // a row of `width` bytes holds 2*width counters; the cell number is the API here
    let bytes = (width as u64).clamp(1, 512);
    let mut r = CountMinRow::new(bytes);
    let mut shadow = vec![0u8; (bytes * 2) as usize];
    for _ in 0..(50 + rng.below(400)) {
        match rng.below(40) {
            0 => {
                r.reset();
                shadow.iter_mut().for_each(|c| *c >>= 1);
            }
            1 => {
                r.clear();
                shadow.iter_mut().for_each(|c| *c = 0);
            }
            _ => {
                let i = if rng.chance(1, 2) { rng.below(4.min(bytes * 2)) } else { rng.below(bytes * 2) };
                r.increment(i);
                if shadow[i as usize] < 15 {
                    shadow[i as usize] += 1;
                }
            }
        }
        rep.count("c13_row_checks");
        let got: Vec<u8> = (0..bytes * 2).map(|i| r.get(i)).collect();
        if got != shadow {
            let at = got.iter().zip(shadow.iter()).position(|(a, b)| a != b).unwrap();
            rep.violate("C13", "row/cell-mismatch", format!("counter {at}: row says {}, shadow {}", got[at], shadow[at]), desc.clone());
            return;
        }
    }
}

// =============================================================================================
// C14
// =============================================================================================

#[derive(Clone, Copy, Debug)]
enum SetKind {
    Uniform,
    OnlyHigh,
    OnlyLow,
    Sequential,
}

fn bloom_hash(kind: SetKind, i: u64, base: u64) -> u64 {
    match kind {
        SetKind::Uniform => crate::common::splitmix(base.wrapping_add(i)),
        SetKind::OnlyHigh => (i + 1) << 40,
        SetKind::OnlyLow => i + 1,
        SetKind::Sequential => base.wrapping_add(i),
    }
}

pub fn run_bloom(ctx: &Ctx, mut rng: Rng, rep: &mut Report) {
    let caps: &[usize] = if ctx.thorough() { &[1, 10, 64, 100, 1000, 10_000, 100_000] } else { &[1, 10, 64, 100, 1000, 10_000] };
    let rates = [0.05f64, 0.01, 0.001];
    let kinds = [SetKind::Uniform, SetKind::OnlyHigh, SetKind::OnlyLow, SetKind::Sequential];
    let rounds = ctx.n(2, 6);
    let mut case_no = 0u64;
    for round in 0..rounds {
        for &cap in caps {
            for &p in rates.iter() {
                for &kind in kinds.iter() {
                    case_no += 1;
                    // shards split the grid
                    if ctx.shards > 1 && case_no % ctx.shards != ctx.shard {
                        continue;
                    }
                    let mut crng = rng.derive(case_no);
                    let desc = json!({"capacity": cap, "target_rate": p, "set": format!("{kind:?}"), "round": round});
                    let mut local = Report::default();
                    let r = catch_unwind(AssertUnwindSafe(|| bloom_case(cap, p, kind, &mut crng, &mut local, &desc)));
                    merge(rep, local);
                    if r.is_err() {
                        rep.count("cases_ended_by_panic");
                    }
                    fold_panics(rep, &["C14"], &desc);
                    rep.case(true, hash_of(&(cap, (p * 1e6) as u64, format!("{kind:?}"), crng.0)));
                    if case_no <= 2 {
                        rep.sample(desc);
                    }
                }
            }
        }
    }
    rng.next();
}

fn bloom_case(cap: usize, p: f64, kind: SetKind, rng: &mut Rng, rep: &mut Report, desc: &serde_json::Value) {
    let mut b = Bloom::new(cap, p);
    let base = rng.next();
    let params = b.params();
    // fresh filter reports nothing
    for _ in 0..200 {
        if b.contains(rng.next()) {
            rep.violate("C14", "fresh-positive", "fresh filter reports a hash present".into(), desc.clone());
            break;
        }
    }
    let mut added: Vec<u64> = Vec::with_capacity(cap);
    let mut added_set: HashSet<u64> = HashSet::with_capacity(cap);
    let mut next_check = 1usize;
    let use_coa = rng.chance(1, 2);
    for i in 0..cap as u64 {
        let h = bloom_hash(kind, i, base);
        if use_coa {
            let was_new = b.contains_or_add(h);
            let _ = was_new;
        } else {
            b.add(h);
        }
        added.push(h);
        added_set.insert(h);
        rep.count("c14_adds");
        if !b.contains(h) {
            rep.violate("C14", "false-negative", format!("hash {h:#x} not reported right after add (n={}, cap={cap})", added.len()), desc.clone());
        }
        if added.len() == next_check || i + 1 == cap as u64 {
            // incremental membership checkpoint: everything added so far must still be present
            next_check = (next_check * 2).max(next_check + 1);
            for (j, a) in added.iter().enumerate() {
                rep.count("c14_membership_checks");
                if !b.contains(*a) {
                    rep.violate("C14", "false-negative", format!("hash #{j} {a:#x} lost after {} adds", added.len()), desc.clone());
                    break;
                }
            }
        }
    }
    // false-positive rate with uniformly random never-added probes
    let probes = 20_000u64;
    let mut fp = 0u64;
    for _ in 0..probes {
        let mut q = rng.next();
        while added_set.contains(&q) {
            q = rng.next();
        }
        if b.contains(q) {
            fp += 1;
        }
    }
    rep.add("c14_random_probes", probes);
    rep.add("c14_false_positives", fp);
    let rate = fp as f64 / probes as f64;
    // threshold: 3p plus 7 standard deviations of a binomial(probes, 3p) (false alarm < 1e-9)
    let mean = 3.0 * p * probes as f64;
    let thr = mean + 7.0 * (mean * (1.0 - 3.0 * p)).sqrt() + 1.0;
    rep.max(&format!("c14_max_rate_ppm_p{}", (p * 1000.0) as u64), (rate * 1e6) as u64);
    if (fp as f64) > thr {
        rep.violate(
            "C14",
            &format!("false-positive-rate/{}-set", format!("{kind:?}").to_lowercase()),
            format!("capacity {cap}, target {p}: {fp}/{probes} random never-added hashes reported present (rate {rate:.4}, allowed {:.4}); filter params (words,mask,exp,locs,shift)={params:?}, bits set {} in {} words", thr / probes as f64, b.bits_set(), b.words_touched()),
            desc.clone(),
        );
    }
    // structured probes (the statement quantifies over every probe hash, "including hashes that differ
    // only in high or only in low bits"): each family of never-added hashes obeys the same bound
    for probe_kind in [SetKind::OnlyHigh, SetKind::OnlyLow, SetKind::Sequential] {
        let n = 4000u64;
        let (mut sfp, mut asked) = (0u64, 0u64);
        for i in 0..n {
            let q = bloom_hash(probe_kind, cap as u64 + 1 + i, base);
            if added_set.contains(&q) {
                continue;
            }
            asked += 1;
            if b.contains(q) {
                sfp += 1;
            }
        }
        rep.add("c14_structured_probes", asked);
        rep.add("c14_structured_probe_positives", sfp);
        let mean = 3.0 * p * asked as f64;
        let thr = mean + 7.0 * (mean * (1.0 - 3.0 * p)).sqrt() + 1.0;
        if (sfp as f64) > thr {
            rep.violate(
                "C14",
                &format!("false-positive-rate/{}-probes", format!("{probe_kind:?}").to_lowercase()),
                format!("capacity {cap}, target {p}, added set {kind:?}: {sfp}/{asked} never-added {probe_kind:?} hashes reported present (rate {:.4}, allowed {:.4}); filter params (words,mask,exp,locs,shift)={params:?}", sfp as f64 / asked.max(1) as f64, thr / asked.max(1) as f64),
                desc.clone(),
            );
        }
    }
    // reset / clear empty the filter completely
    if rng.chance(1, 2) {
        b.reset();
    } else {
        b.clear();
    }
    let mut left = 0;
    for a in added.iter().take(5000) {
        if b.contains(*a) {
            left += 1;
        }
    }
    for _ in 0..2000 {
        if b.contains(rng.next()) {
            left += 1;
        }
    }
    rep.count("c14_resets");
    if left != 0 || b.bits_set() != 0 {
        rep.violate("C14", "reset-not-empty", format!("{left} hashes still present / {} bits set after reset", b.bits_set()), desc.clone());
    }
    // the filter is usable again after the reset
    let h = rng.next();
    b.add(h);
    if !b.contains(h) {
        rep.violate("C14", "false-negative", "hash not present after reset + add".into(), desc.clone());
    }
}

// =============================================================================================
// C18 (a) (b)
// =============================================================================================

pub fn run_keys(ctx: &Ctx, mut rng: Rng, rep: &mut Report) {
    use stretto::{DefaultKeyBuilder, KeyBuilder, TransparentKeyBuilder};
    let desc = json!({"part": "key builders"});
    let r = catch_unwind(AssertUnwindSafe(|| {
        // (a) DefaultKeyBuilder: one pair per key per builder, however the key is borrowed
        let n = ctx.n(20_000, 400_000);
        let kb_s: DefaultKeyBuilder<String> = DefaultKeyBuilder::default();
        let kb_v: DefaultKeyBuilder<Vec<u8>> = DefaultKeyBuilder::default();
        let kb_u: DefaultKeyBuilder<u64> = DefaultKeyBuilder::default();
        let mut seen: HashMap<(u64, u64), String> = HashMap::new();
        for i in 0..n {
            let len = rng.below(24) as usize;
            let s: String = (0..len).map(|_| (b'a' + rng.below(26) as u8) as char).collect();
            let owned = kb_s.build_key(&s);
            let borrowed = kb_s.build_key(s.as_str());
            let again = kb_s.build_key(&s.clone());
            rep.add("c18_default_builder_checks", 3);
            if owned != borrowed || owned != again {
                rep.violate("C18", "default-builder/unstable", format!("String {s:?}: {owned:?} vs &str {borrowed:?} vs again {again:?}"), desc.clone());
            }
            if (kb_s.hash_index(s.as_str()), kb_s.hash_conflict(s.as_str())) != owned {
                rep.violate("C18", "default-builder/build-key-parts", format!("build_key != (hash_index, hash_conflict) for {s:?}"), desc.clone());
            }
            if let Some(prev) = seen.insert(owned, s.clone()) {
                if prev != s {
                    rep.count("c18_default_builder_full_collisions_measured");
                }
            }
            let v: Vec<u8> = s.as_bytes().to_vec();
            if kb_v.build_key(&v) != kb_v.build_key(&v[..]) {
                rep.violate("C18", "default-builder/unstable", format!("Vec<u8> vs &[u8] differ for {v:?}"), desc.clone());
            }
            let x = if i % 3 == 0 { rng.next() } else { i };
            if kb_u.build_key(&x) != kb_u.build_key(&{ x }) {
                rep.violate("C18", "default-builder/unstable", format!("u64 {x} hashed differently twice"), desc.clone());
            }
        }
        // (b) TransparentKeyBuilder: (x as u64, 0); distinct keys, distinct indices
        macro_rules! exhaustive {
            ($t:ty) => {{
                let kb = TransparentKeyBuilder::<$t>::default();
                let mut idx: HashSet<u64> = HashSet::new();
                let mut cnt = 0u64;
                for x in <$t>::MIN..=<$t>::MAX {
                    let got = kb.build_key(&x);
                    cnt += 1;
                    // the index is the key itself; the conflict hash is free, but a function of the key
                    if got.0 != x as u64 || got != kb.build_key(&x) || got != (kb.hash_index(&x), kb.hash_conflict(&x)) {
                        rep.violate("C18", "transparent-builder/not-identity", format!("{}: {x} -> {got:?}, expected index {} and a stable conflict hash", stringify!($t), x as u64), desc.clone());
                    }
                    if !idx.insert(got.0) {
                        rep.violate("C18", "transparent-builder/collision", format!("{}: index {} produced twice", stringify!($t), got.0), desc.clone());
                    }
                }
                rep.add(concat!("c18_transparent_exhaustive_", stringify!($t)), cnt);
            }};
        }
        exhaustive!(u8);
        exhaustive!(i8);
        exhaustive!(u16);
        exhaustive!(i16);
        {
            let kb = TransparentKeyBuilder::<bool>::default();
            for b in [false, true] {
                if kb.build_key(&b).0 != b as u64 || kb.build_key(&b) != kb.build_key(&b) {
                    rep.violate("C18", "transparent-builder/not-identity", format!("bool {b} -> {:?}", kb.build_key(&b)), desc.clone());
                }
            }
            rep.add("c18_transparent_exhaustive_bool", 2);
        }
        macro_rules! sampled {
            ($t:ty, $n:expr) => {{
                let kb = TransparentKeyBuilder::<$t>::default();
                let mut pairs: HashMap<u64, $t> = HashMap::new();
                let mut xs: Vec<$t> = vec![<$t>::MIN, <$t>::MAX, 0 as $t, 1 as $t, <$t>::MIN + 1, <$t>::MAX - 1];
                for s in 0..(<$t>::BITS) {
                    xs.push((1 as $t) << s);
                    xs.push(((1 as $t) << s).wrapping_sub(1));
                    xs.push(((1 as $t) << s).wrapping_neg());
                }
                for _ in 0..$n {
                    xs.push(rng.next() as $t);
                }
                for x in xs {
                    let got = kb.build_key(&x);
                    rep.count(concat!("c18_transparent_sampled_", stringify!($t)));
                    // the index is the key itself; the conflict hash is free, but a function of the key
                    if got.0 != x as u64 || got != kb.build_key(&x) || got != (kb.hash_index(&x), kb.hash_conflict(&x)) {
                        rep.violate("C18", "transparent-builder/not-identity", format!("{}: {x} -> {got:?}, expected index {} and a stable conflict hash", stringify!($t), x as u64), desc.clone());
                    }
                    if let Some(prev) = pairs.insert(got.0, x) {
                        if prev != x {
                            rep.violate("C18", "transparent-builder/collision", format!("{}: {prev} and {x} share index {}", stringify!($t), got.0), desc.clone());
                        }
                    }
                    if kb.build_key(&x) != got {
                        rep.violate("C18", "transparent-builder/unstable", format!("{}: {x} hashed differently twice", stringify!($t)), desc.clone());
                    }
                }
            }};
        }
        let m = ctx.n(100_000, 1_000_000);
        sampled!(u32, m);
        sampled!(i32, m);
        sampled!(u64, m);
        sampled!(i64, m);
        sampled!(usize, m);
        sampled!(isize, m);
    }));
    if r.is_err() {
        rep.count("cases_ended_by_panic");
    }
    fold_panics(rep, &["C18"], &desc);
    rep.case(true, 1);
    rep.case(true, 2);
    rep.sample(json!({"default_builder_keys": "random lowercase strings of length 0..24, byte vectors, u64", "transparent": "bool/u8/i8/u16/i16 exhaustive; 32/64-bit and pointer-sized: boundaries, powers of two and neighbours, random"}));
}

// =============================================================================================
// C07 (component level): the real LFUPolicy with its real worker
// =============================================================================================

fn drain_policy(kept_before: u64, applied_before: u64) -> bool {
    // wait until the worker has applied every batch that was kept
    let t0 = std::time::Instant::now();
    loop {
        let kept = counters::get(&counters::PUSH_KEYS_KEPT) - kept_before;
        let applied = counters::get(&counters::POLICY_KEYS_APPLIED) - applied_before;
        if applied >= kept {
            return true;
        }
        if t0.elapsed().as_secs() > 20 {
            return false;
        }
        std::thread::yield_now();
    }
}

pub fn run_policy(ctx: &Ctx, mut rng: Rng, rep: &mut Report) {
    let rounds = ctx.n(600, 8000);
    observe::enable(true);
    for round in 0..rounds {
        let mut crng = rng.derive(round);
        let desc = json!({"round": round});
        let mut local = Report::default();
        let r = catch_unwind(AssertUnwindSafe(|| policy_round(round, &mut crng, &mut local)));
        merge(rep, local);
        if r.is_err() {
            rep.count("cases_ended_by_panic");
        }
        fold_panics(rep, &["C07"], &desc);
    }
    observe::enable(false);
    let _ = observe::take();
    rng.next();
    let iters = rep.get("c07_loop_iterations");
    if iters < 200 {
        rep.inconclusive(format!("only {iters} eviction-loop iterations observed (minimum 200)"));
    }
}

fn policy_round(round: u64, rng: &mut Rng, rep: &mut Report) {
    let max0 = 5 + rng.below(40) as i64;
    let universe = *rng.pick(&[3u64, 6, 12, 24]);
    // small costs give states with many residents (full five-candidate samples), large ones give
    // several-victim admissions and states with fewer than five residents
    let small_costs = rng.chance(1, 2);
    let p = match Policy::new(*rng.pick(&[64usize, 1000, 100_000]), max0) {
        Ok(p) => p,
        Err(e) => {
            rep.inconclusive(format!("Policy::new failed: {e}"));
            return;
        }
    };
    let (kept0, applied0) = (counters::get(&counters::PUSH_KEYS_KEPT), counters::get(&counters::POLICY_KEYS_APPLIED));
    // popularity: 0..16 look-ups per key, in batches
    let pushes = rng.below(7);
    for _ in 0..pushes {
        let ks: Vec<u64> = (0..(1 + rng.below(24))).map(|_| rng.below(universe)).collect();
        let mut tries = 0;
        while !p.push(ks.clone()).unwrap_or(false) {
            std::thread::yield_now();
            tries += 1;
            if tries > 1_000_000 {
                break;
            }
        }
    }
    if !drain_policy(kept0, applied0) {
        rep.inconclusive("policy worker did not drain its queue within 20 s".into());
        return;
    }
    let _ = observe::take();
    let mut trail: Vec<String> = Vec::new();
    let steps = 60 + rng.below(140);
    for step in 0..steps {
        let (costs, used, maxc) = p.costs();
        let pre: BTreeMap<u64, i64> = costs.into_iter().collect();
        let est: HashMap<u64, i64> = (0..universe).map(|k| (k, p.estimate(k))).collect();
        let roll = rng.below(20);
        if roll == 0 {
            let m = 3 + rng.below(45) as i64;
            p.update_max_cost(m);
            trail.push(format!("update_max_cost({m})"));
            let _ = observe::take();
            continue;
        }
        if roll == 1 {
            if let Some(k2) = pre.keys().nth(rng.below(pre.len().max(1) as u64) as usize) {
                let c = 1 + rng.below(if small_costs { 4 } else { 20 }) as i64;
                p.update(*k2, c);
                trail.push(format!("update({k2},{c})"));
            }
            let _ = observe::take();
            continue;
        }
        if roll == 2 {
            if let Some(k2) = pre.keys().next() {
                p.remove(*k2);
                trail.push(format!("remove({k2})"));
            }
            let _ = observe::take();
            continue;
        }
        let k = rng.below(universe);
        let c = match rng.below(8) {
            0 => maxc + 1 + rng.below(3) as i64,
            1 => maxc,
            2 => (maxc - 1).max(0),
            _ if small_costs => 1 + rng.below(3) as i64,
            _ => 1 + rng.below(maxc.max(1) as u64 + 2) as i64,
        };
        let _ = observe::take();
        let (victims, added) = p.add(k, c);
        let evs = observe::take();
        trail.push(format!("add({k},{c})->{added}"));
        rep.count("c07_adds");
        let iters: Vec<_> = evs
            .iter()
            .filter_map(|e| match e {
                observe::Ev::AddIter { room, inc_hits, min_hits, sample, victim, .. } => Some((*room, *inc_hits, *min_hits, sample.clone(), *victim)),
                _ => None,
            })
            .collect();
        rep.add("c07_loop_iterations", iters.len() as u64);
        let witness = || json!({"round": round, "step": step, "add": [k, c], "max_cost": maxc, "used": used, "resident_costs": pre, "estimates": est.iter().collect::<BTreeMap<_,_>>(), "returned_victims": victims, "added": added, "iterations": iters.iter().map(|i| json!({"room": i.0, "sample": i.3, "victim": i.4})).collect::<Vec<_>>(), "trail": trail.iter().rev().take(10).rev().collect::<Vec<_>>()});
        macro_rules! fail {
            ($sig:expr, $($a:tt)*) => { rep.violate("C07", $sig, format!($($a)*), witness()) };
        }
        let (post, used2, _) = p.costs();
        let post: BTreeMap<u64, i64> = post.into_iter().collect();
        // (i) oversize
        if c > maxc {
            rep.count("c07_oversize");
            if added || victims.is_some() || !iters.is_empty() || post != pre {
                fail!("oversize-not-refused-cleanly", "cost {c} > max_cost {maxc} but added={added}, victims={victims:?}");
            }
            continue;
        }
        // (ii) resident key: cost update only
        if pre.contains_key(&k) {
            rep.count("c07_resident_updates");
            let mut expect = pre.clone();
            expect.insert(k, c);
            if added || victims.is_some() || !iters.is_empty() || post != expect {
                fail!("resident-not-plain-update", "add of resident key {k}: added={added}, victims={victims:?}");
            }
            continue;
        }
        // (iii) room: admitted, nothing evicted, no sampling
        if maxc - (used + c) >= 0 {
            rep.count("c07_admitted_with_room");
            let mut expect = pre.clone();
            expect.insert(k, c);
            if !added || victims.is_some() || !iters.is_empty() || post != expect {
                fail!("room-but-not-plainly-admitted", "room {} >= 0 but added={added}, victims={victims:?}, {} sampling iterations", maxc - (used + c), iters.len());
            }
            continue;
        }
        // (iv) eviction loop
        rep.count("c07_eviction_path");
        let mut residents = pre.clone();
        let mut u = used;
        let mut gone: HashSet<u64> = HashSet::new();
        let mut obs_victims: Vec<u64> = Vec::new();
        let inc = est[&k];
        let mut rejected = false;
        if iters.is_empty() {
            fail!("no-sampling-although-no-room", "room {} < 0 and no eviction iteration was observed", maxc - (used + c));
        }
        for (i, (room, _ih, _mh, sample, victim)) in iters.iter().enumerate() {
            let true_room = maxc - (u + c);
            if true_room >= 0 {
                fail!("evicting-although-room", "iteration {i} although room {true_room} >= 0");
            }
            if *room != true_room {
                fail!("room-not-recomputed", "iteration {i}: loop saw room {room}, state says {true_room}");
            }
            rep.count(&format!("c07_iterations_with_{}_residents", residents.len().min(9)));
            let all_res = residents.keys().all(|r| sample.iter().any(|s| s.0 == *r));
            if !(sample.len() == 5 || (sample.len() < 5 && all_res)) {
                fail!("sample-size", "iteration {i}: sample of {} candidates with {} residents", sample.len(), residents.len());
            }
            for (sk, sc) in sample.iter() {
                if gone.contains(sk) {
                    rep.count("c07_stale_candidates_seen");
                } else if residents.get(sk) != Some(sc) {
                    fail!("sample-not-resident", "iteration {i}: candidate ({sk},{sc}) is not a resident with that cost");
                }
            }
            let minh = sample.iter().map(|s| est.get(&s.0).copied().unwrap_or(0)).min().unwrap_or(i64::MAX);
            if inc < minh {
                rejected = true;
                if i != iters.len() - 1 {
                    fail!("continued-after-reject", "iteration {i}: newcomer estimate {inc} < least popular {minh} but the loop went on");
                }
                break;
            }
            let ve = est.get(victim).copied().unwrap_or(0);
            if !sample.iter().any(|s| s.0 == *victim) {
                fail!("victim-not-sampled", "iteration {i}: victim {victim} is not among the candidates");
            }
            if ve != minh {
                fail!("victim-not-least-popular", "iteration {i}: victim {victim} estimate {ve}, least popular candidate has {minh}");
            }
            if ve > inc {
                fail!("victim-more-popular-than-newcomer", "iteration {i}: victim estimate {ve} > newcomer {inc}");
            }
            if ve == inc {
                rep.count("c07_ties_newcomer_wins");
            }
            if let Some(vc) = residents.remove(victim) {
                u -= vc;
            }
            gone.insert(*victim);
            obs_victims.push(*victim);
        }
        if iters.len() > 1 {
            rep.count("c07_multi_iteration_adds");
        }
        if residents.len() + gone.len() < 5 {
            rep.count("c07_fewer_than_five_residents");
        }
        if rejected {
            rep.count("c07_rejections");
            if added {
                fail!("added-though-less-popular", "newcomer (estimate {inc}) strictly less popular than the least popular candidate, yet added");
            }
        } else {
            if !added {
                fail!("rejected-though-not-less-popular", "newcomer never strictly less popular than the sample minimum, yet not added");
            }
            if maxc - (u + c) < 0 {
                fail!("admitted-without-room", "admitted with room {} < 0", maxc - (u + c));
            }
        }
        let rv: Vec<u64> = victims.clone().unwrap_or_default().into_iter().map(|v| v.0).collect();
        if rv != obs_victims {
            fail!("victims-returned-differ", "returned victims {rv:?} != observed {obs_victims:?}");
        }
        for (vk, vc) in victims.clone().unwrap_or_default() {
            if pre.get(&vk) != Some(&vc) {
                fail!("victim-cost", "victim ({vk},{vc}) reported with a cost that was not its charge {:?}", pre.get(&vk));
            }
        }
        let mut expect = residents.clone();
        if added {
            expect.insert(k, c);
        }
        if post != expect || used2 != expect.values().sum::<i64>() {
            fail!("post-state", "post state {post:?} used {used2}, expected {expect:?}");
        }
        rep.case(true, hash_of(&(round, step, k, c, maxc, used, pre.len())));
    }
    let _ = p.close();
    if round < 2 {
        rep.sample(json!({"round": round, "max_cost": max0, "universe": universe, "operations": trail.iter().take(25).collect::<Vec<_>>()}));
    }
}
