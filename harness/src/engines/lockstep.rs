//! Lockstep engine: scripted histories with quiescence after every step, decided by the model
//! oracle; with --flavors it also compares flavours observation by observation (C19).
use super::Ctx;
use crate::common::{fold_panics, hash_of, Report, Rng};
use crate::driver::{build, Cfg, Exec, Flavor};
use crate::oracle::check_trace;
use crate::script::{generate, profile, run_script, Script, Trace};
use crate::supervise::{supervised, Sup};
use serde_json::json;
use std::sync::OnceLock;
use std::time::Duration;

pub fn item_size() -> usize {
    static SZ: OnceLock<usize> = OnceLock::new();
    *SZ.get_or_init(|| {
        stretto::verif::reset();
        let d = build(Flavor::Sync, &Cfg { manual_ticker: false, ..Cfg::default() }).expect("probe cache");
        let n = d.snapshot().item_size;
        let _ = d.close();
        n
    })
}

pub fn flavors_for(ctx: &Ctx, default_quick: &[Flavor], default_thorough: &[Flavor]) -> Vec<Flavor> {
    if let Some(f) = &ctx.flavors {
        return f.split(',').filter_map(Flavor::parse).collect();
    }
    if ctx.thorough() {
        default_thorough.to_vec()
    } else {
        default_quick.to_vec()
    }
}

pub const ALL_ASYNC: [Flavor; 5] = [Flavor::Async(Exec::TokioMt), Flavor::Async(Exec::TokioCt), Flavor::Async(Exec::AsyncStd), Flavor::Async(Exec::ThreadPerTask), Flavor::Async(Exec::Seeded)];

pub fn run_one(flavor: Flavor, script: &Script, watchdog: Duration) -> Sup<Trace> {
    let s2 = script.clone();
    supervised("lockstep", watchdog, move || run_script(flavor, &s2))
}

/// returns false when the process must stop (a hang leaves threads behind)
pub fn judge_sup(sup: Sup<Trace>, script: &Script, flavor: Flavor, progress_props: &[&str], rep: &mut Report) -> Option<Trace> {
    match sup {
        Sup::Done(t) => Some(t),
        Sup::Panicked => {
            rep.count("histories_ended_by_panic");
            None
        }
        Sup::Hang(diag) => {
            for p in progress_props {
                rep.violate(p, "hang/no-thread-can-progress", format!("{}: a call into the cache never returned: every thread is asleep and nothing is pending that could wake it (phase {})", flavor.name(), diag["phase"]), json!({"script": script.describe(script.steps.len()), "diagnosis": diag}));
            }
            rep.count("hangs");
            None
        }
        Sup::Timeout(diag) => {
            rep.inconclusive(format!("watchdog fired without a definitive diagnosis: {diag}"));
            None
        }
    }
}

pub const PROGRESS_PROPS: [&str; 11] = ["C04", "C05", "C06", "C08", "C10", "C11", "C15", "C16", "C17", "C19", "C20"];

pub fn run(ctx: &Ctx, rng: Rng, rep: &mut Report) {
    let prof = profile(ctx.profile.as_deref().unwrap_or(&ctx.prop));
    let histories = ctx.n(ctx.quick_n.unwrap_or(300), ctx.thorough_n.unwrap_or(6000));
    let flavors = flavors_for(ctx, &[Flavor::Sync], &[Flavor::Sync]);
    let isz = item_size();
    let watchdog = Duration::from_secs(if ctx.thorough() { 300 } else { 180 });
    if ctx.prop == "C05" {
        // the wiring of the real ticker, once per flavour and shard
        for f in [Flavor::Sync, Flavor::Async(Exec::TokioMt), Flavor::Async(Exec::ThreadPerTask)] {
            super::types::real_ticker_scenario(f, rng.derive(777).next() >> 30, rep);
        }
    }
    if ctx.prop == "C17" || ctx.prop == "C19" {
        // hit-only / miss-only / empty windows of the hit-miss counters and ratio()
        for (i, f) in flavors.iter().cycle().take(flavors.len().max(1) * ctx.n(6, 40) as usize).enumerate() {
            super::types::ratio_scenario(*f, rng.derive(888 + i as u64).next(), rep);
        }
    }
    for h in 0..histories {
        let mut hrng = rng.derive(h);
        let hist_no = ctx.shard * 1_000_000 + h;
        let script = generate(&prof, &mut hrng, hist_no, isz);
        let flavor = flavors[(h % flavors.len() as u64) as usize];
        let sup = run_one(flavor, &script, watchdog);
        let stop = !matches!(sup, Sup::Done(_) | Sup::Panicked);
        let tr = judge_sup(sup, &script, flavor, &PROGRESS_PROPS, rep);
        fold_panics(rep, &["C20", &ctx.prop], &script.describe(script.steps.len()));
        if let Some(tr) = tr {
            let before = rep.violations_for(&ctx.prop);
            let out = check_trace(&script, &tr, rep);
            rep.add("ls_histories", 1);
            rep.add(&format!("ls_histories_{}", flavor.name()), 1);
            rep.add("ls_steps", script.steps.len() as u64);
            rep.add("ls_observations", tr.obs.len() as u64);
            rep.add("ls_ticks", out.ticks);
            rep.add("ls_reclaimed_by_ttl", out.reclaimed);
            rep.add("ls_evicted_for_room", out.evicted_for_room);
            rep.add("ls_rejected", out.rejected);
            rep.add("ls_clears", out.clears);
            rep.add("ls_updates", out.updates);
            rep.add("ls_vetoes", out.vetoes);
            rep.add("ls_lookups_scripted", out.lookups);
            if out.out_of_domain {
                rep.count("ls_histories_with_charge_sum_beyond_i64");
            }
            rep.add(&format!("ls_interval_ms_{}", tr.interval_ns / 1_000_000), 1);
            for o in tr.obs.iter() {
                rep.states.insert(hash_of(&(o.snap.store.iter().map(|e| (e.index, e.tag, e.ttl_ns)).collect::<Vec<_>>(), o.snap.used)));
            }
            let nontrivial = out.ticks > 0 || out.updates > 0;
            rep.case(nontrivial, hash_of(&format!("{:?}{:?}", script.steps, script.cfg)));
            if h < 2 {
                rep.sample(json!({"history": h, "flavor": flavor.name(), "script": script.describe(24), "observed": {"ticks": out.ticks, "reclaimed": out.reclaimed, "evicted_for_room": out.evicted_for_room, "clears": out.clears, "updates": out.updates}}));
            }
            let _ = before;
        }
        if stop {
            rep.add("histories_not_run_after_hang", histories - h - 1);
            break;
        }
    }
}
