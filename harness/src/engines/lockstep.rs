//! Lockstep engine: scripted histories with quiescence after every step, decided by the model
//! oracle; with --flavors it also compares flavours observation by observation (C19).
use super::Ctx;
use crate::common::{fold_panics, hash_of, Report, Rng};
use crate::driver::{build, Cfg, Exec, Flavor};
use crate::oracle::check_trace;
use crate::script::{generate, profile, run_script, Script, Trace};
use crate::supervise::{supervised, Sup};
use serde_json::json;
use std::sync::OnceLock;
use std::time::Duration;

pub fn item_size() -> usize {
    static SZ: OnceLock<usize> = OnceLock::new();
    *SZ.get_or_init(|| {
        stretto::verif::reset();
        let d = build(Flavor::Sync, &Cfg { manual_ticker: false, ..Cfg::default() }).expect("probe cache");
        let n = d.snapshot().item_size;
        let _ = d.close();
        n
    })
}

pub fn flavors_for(ctx: &Ctx, default_quick: &[Flavor], default_thorough: &[Flavor]) -> Vec<Flavor> {
    if let Some(f) = &ctx.flavors {
        return f.split(',').filter_map(Flavor::parse).collect();
    }
    if ctx.thorough() {
        default_thorough.to_vec()
    } else {
        default_quick.to_vec()
    }
}

pub const ALL_ASYNC: [Flavor; 5] = [Flavor::Async(Exec::TokioMt), Flavor::Async(Exec::TokioCt), Flavor::Async(Exec::AsyncStd), Flavor::Async(Exec::ThreadPerTask), Flavor::Async(Exec::Seeded)];

pub fn run_one(flavor: Flavor, script: &Script, watchdog: Duration) -> Sup<Trace> {
    let s2 = script.clone();
    supervised("lockstep", watchdog, move || run_script(flavor, &s2))
}

/// returns false when the process must stop (a hang leaves threads behind)
pub fn judge_sup(sup: Sup<Trace>, script: &Script, flavor: Flavor, progress_props: &[&str], rep: &mut Report) -> Option<Trace> {
    match sup {
        Sup::Done(t) => Some(t),
        Sup::Panicked => {
            rep.count("histories_ended_by_panic");
            None
        }
        Sup::Hang(diag) => {
            for p in progress_props {
                rep.violate(p, "hang/no-thread-can-progress", format!("{}: a call into the cache never returned: {} (phase {})", flavor.name(), diag["kind"].as_str().unwrap_or("no thread can make progress"), diag["phase"]), json!({"script": script.describe(script.steps.len()), "diagnosis": diag}));
            }
            rep.count("hangs");
            None
        }
        Sup::Timeout(diag) => {
            rep.inconclusive(format!("watchdog fired without a definitive diagnosis: {diag}"));
            None
        }
    }
}

/// C11 "the cache then behaves like a fresh one": the part of a below-capacity history that follows
/// its last clear() is replayed, at the same virtual instants and with the same tick instants, on a
/// freshly built cache (which starts with a clear() of its own so that the counting periods align);
/// every observable of the two runs must agree record by record. Not compared: popularity estimates
/// and gets_kept/gets_dropped (look-ups parked in the ring stripes legitimately survive a clear and
/// shift the batch boundaries) and the callbacks/drops of the clear record itself.
pub fn fresh_equivalence(script: &Script, tr: &Trace, flavor: Flavor, watchdog: Duration, rep: &mut Report) -> bool {
    use crate::script::Step;
    if !script.below_capacity {
        return true;
    }
    let Some(c) = script.steps.iter().rposition(|s| matches!(s, Step::Clear)) else { return true };
    if script.steps.len() - c < 4 {
        return true;
    }
    let Some(i0) = tr.obs.iter().position(|o| o.step == c && o.tick_at.is_none()) else { return true };
    let t = tr.obs[i0].vnow;
    let interval = tr.interval_ns.max(1);
    let first_tick = script.start_ns as i128 + (script.tick_phase_ns % interval) as i128;
    let phase = (first_tick - t as i128).rem_euclid(interval as i128) as u64;
    if phase == 0 {
        rep.count("c11_fresh_runs_skipped_tick_exactly_at_clear");
        return true;
    }
    let max_cost = script.steps[..c].iter().rev().find_map(|s| if let Step::UpdateMaxCost { m } = s { Some(*m) } else { None }).unwrap_or(script.cfg.max_cost);
    let mut fresh = script.clone();
    fresh.cfg.max_cost = max_cost;
    fresh.start_ns = t;
    fresh.tick_phase_ns = phase;
    fresh.steps = script.steps[c..].to_vec();
    let sup = run_one(flavor, &fresh, watchdog);
    let stop = !matches!(sup, Sup::Done(_) | Sup::Panicked);
    let Some(tr2) = judge_sup(sup, &fresh, flavor, &["C11"], rep) else { return !stop };
    rep.count("c11_suffixes_replayed_on_a_fresh_cache");
    let a = &tr.obs[i0..];
    let b = &tr2.obs[..];
    let wit = |what: &str, i: usize, x: String, y: String| json!({"script": script.describe(script.steps.len()), "flavor": flavor.name(), "last_clear_at_step": c, "record_after_clear": i, "step": script.steps.get(c + b.get(i).map_or(0, |o| o.step)).map(|s| s.short()), "field": what, "after_clear": x, "fresh_cache": y});
    if a.len() != b.len() {
        rep.violate("C11", "clear/not-like-fresh", format!("{} records after the clear, {} on the fresh cache (ticks differ)", a.len(), b.len()), wit("records", 0, a.len().to_string(), b.len().to_string()));
        return true;
    }
    let seen = |s: &Option<crate::driver::Seen>| s.as_ref().map(|s| (s.id, s.key, s.aux, s.ttl));
    // When exactly an entry whose TTL has elapsed is reclaimed is the implementation's business (within
    // C05's bound) and may depend on when the cache was built; so while either run still holds such an
    // entry only what a client can see is compared (returns, look-ups, TTLs, the live entries and their
    // charges, hit/miss counters); everything else (callbacks so far, used, len, eviction counters,
    // histogram) is compared at the records where both runs hold live entries only.
    let live = |o: &crate::script::Obs| {
        let mut v: Vec<(u64, u64, u64, u64, u64)> = o.snap.store.iter().filter(|e| e.ttl_ns == 0 || e.created_ns.saturating_add(e.ttl_ns) > o.vnow).map(|e| (e.index, e.conflict, e.ttl_ns, e.created_ns, e.tag)).collect();
        v.sort();
        v
    };
    let settled = |o: &crate::script::Obs| o.snap.store.iter().all(|e| e.ttl_ns == 0 || e.created_ns.saturating_add(e.ttl_ns) > o.vnow);
    let (mut evs_a, mut evs_b): (Vec<String>, Vec<String>) = (Vec::new(), Vec::new());
    let index_of = |k: u64| script.index_base + if script.cfg.collide { 1000 + k / 2 } else { k };
    for (i, (x, y)) in a.iter().zip(b.iter()).enumerate() {
        // An operation on a key whose entry has expired but is not reclaimed yet has two legitimate outcomes
        // (the entry is still there: update / true; it is gone: first insert / false), and which one it gets
        // depends on the reclaim instant, which is free. From such a step on the two runs may differ.
        if i > 0 && x.tick_at.is_none() {
            let key = match &script.steps[x.step] {
                Step::Insert { k, .. } | Step::InsertIfPresent { k, .. } | Step::Remove { k } | Step::GetMutWrite { k, .. } => Some(*k),
                _ => None,
            };
            if let Some(k) = key {
                let idx = index_of(k);
                let dead = |o: &crate::script::Obs| o.snap.store.iter().any(|e| e.index == idx && e.ttl_ns != 0 && e.created_ns.saturating_add(e.ttl_ns) <= x.vnow);
                if dead(&a[i - 1]) || dead(&b[i - 1]) {
                    rep.count("c11_comparisons_ended_at_an_operation_on_an_expired_unreclaimed_entry");
                    return !stop;
                }
            }
        }
        macro_rules! cmp {
            ($what:expr, $l:expr, $r:expr) => {{
                let (l, r) = ($l, $r);
                if l != r {
                    rep.violate("C11", "clear/not-like-fresh", format!("record {i} after the clear ({}): {} differs from a fresh cache: {:x?} vs {:x?}", script.steps[x.step].short(), $what, l, r), wit($what, i, format!("{:x?}", l), format!("{:x?}", r)));
                    return true;
                }
            }};
        }
        rep.count("c11_records_compared_with_fresh_cache");
        cmp!("step", x.step - c, y.step);
        cmp!("tick instant", x.tick_at, y.tick_at);
        cmp!("virtual time", x.vnow, y.vnow);
        cmp!("return value", x.ret_bool, y.ret_bool);
        cmp!("error", x.ret_err.clone(), y.ret_err.clone());
        cmp!("wait error", x.wait_err.clone(), y.wait_err.clone());
        cmp!("value seen by the step", x.seen.as_ref().map(seen), y.seen.as_ref().map(seen));
        cmp!("get of every key", x.probe.get.iter().map(seen).collect::<Vec<_>>(), y.probe.get.iter().map(seen).collect::<Vec<_>>());
        cmp!("get_mut of every key", x.probe.get_mut.iter().map(seen).collect::<Vec<_>>(), y.probe.get_mut.iter().map(seen).collect::<Vec<_>>());
        cmp!("get_ttl of every key", x.probe.ttl.clone(), y.probe.ttl.clone());
        cmp!("live entries (index, conflict, ttl, created, value)", live(x), live(y));
        let live_costs = |o: &crate::script::Obs| {
            let idx: std::collections::HashSet<u64> = live(o).iter().map(|e| e.0).collect();
            let mut v: Vec<(u64, i64)> = o.snap.costs.iter().filter(|c| idx.contains(&c.0)).cloned().collect();
            v.sort();
            v
        };
        cmp!("charges of the live entries", live_costs(x), live_costs(y));
        cmp!("max_cost", x.snap.max_cost, y.snap.max_cost);
        cmp!("hits and misses", x.metrics.map(|m| m[..2].to_vec()), y.metrics.map(|m| m[..2].to_vec()));
        if i > 0 {
            // which values have left through a callback / been dropped; not through which callback: an entry
            // whose TTL has elapsed leaves through on_evict if the sweep comes first and through on_exit if a
            // re-insert of its key comes first
            let leave = |e: &crate::val::Ev| match &e.kind {
                crate::val::EvKind::Cb { id, key, .. } => format!("callback for #{id:x} (key {key})"),
                other => format!("{other:x?}"),
            };
            evs_a.extend(x.events.iter().map(leave));
            evs_b.extend(y.events.iter().map(leave));
        }
        if settled(x) && settled(y) {
            rep.count("c11_settled_records_compared_in_full");
            evs_a.sort();
            evs_b.sort();
            cmp!("callbacks and drops so far", evs_a.clone(), evs_b.clone());
            let costs = |o: &crate::script::Obs| {
                let mut v = o.snap.costs.clone();
                v.sort();
                v
            };
            cmp!("per-key charges", costs(x), costs(y));
            cmp!("used", x.snap.used, y.snap.used);
            cmp!("len()", x.snap.len, y.snap.len);
            // [hits, misses, keys_added, keys_updated, keys_evicted, cost_added, cost_evicted, sets_dropped, sets_rejected, ..]:
            // whether an expired entry was reclaimed and its key admitted anew, or updated in place, moves counts
            // between added / evicted / updated; the balances and the refusals must agree
            let balance = |m: Option<[u64; 11]>| m.map(|m| vec![m[0], m[1], m[2].wrapping_sub(m[4]), m[5].wrapping_sub(m[6]), m[7], m[8]]);
            cmp!("metrics (hits, misses, keys added - evicted, cost added - evicted, sets dropped, sets rejected)", balance(x.metrics), balance(y.metrics));
            cmp!("ratio()", x.ratio.map(|r| r.to_bits()), y.ratio.map(|r| r.to_bits()));
            // (life-expectancy samples are lifetimes up to a reclaim whose instant - and, when the key is re-inserted
            // first, whose very occurrence - is free: not compared)
        }
    }
    !stop
}

pub const PROGRESS_PROPS: [&str; 11] = ["C04", "C05", "C06", "C08", "C10", "C11", "C15", "C16", "C17", "C19", "C20"];

pub fn run(ctx: &Ctx, rng: Rng, rep: &mut Report) {
    let prof = profile(ctx.profile.as_deref().unwrap_or(&ctx.prop));
    let histories = ctx.n(ctx.quick_n.unwrap_or(300), ctx.thorough_n.unwrap_or(6000));
    let flavors = flavors_for(ctx, &[Flavor::Sync], &[Flavor::Sync]);
    let isz = item_size();
    let watchdog = Duration::from_secs(if ctx.thorough() { 300 } else { 180 });
    if ctx.prop == "C05" {
        // the wiring of the real ticker, once per flavour and shard
        for f in [Flavor::Sync, Flavor::Async(Exec::TokioMt), Flavor::Async(Exec::ThreadPerTask)] {
            super::types::real_ticker_scenario(f, rng.derive(777).next() >> 30, rep);
        }
    }
    if ctx.prop == "C17" || ctx.prop == "C19" {
        // hit-only / miss-only / empty windows of the hit-miss counters and ratio()
        for (i, f) in flavors.iter().cycle().take(flavors.len().max(1) * ctx.n(6, 40) as usize).enumerate() {
            super::types::ratio_scenario(*f, rng.derive(888 + i as u64).next(), rep);
        }
    }
    for h in 0..histories {
        let mut hrng = rng.derive(h);
        let hist_no = ctx.shard * 1_000_000 + h;
        let script = generate(&prof, &mut hrng, hist_no, isz);
        let flavor = flavors[(h % flavors.len() as u64) as usize];
        let sup = run_one(flavor, &script, watchdog);
        let stop = !matches!(sup, Sup::Done(_) | Sup::Panicked);
        let tr = judge_sup(sup, &script, flavor, &PROGRESS_PROPS, rep);
        fold_panics(rep, &["C20", &ctx.prop], &script.describe(script.steps.len()));
        if let Some(tr) = tr {
            let before = rep.violations_for(&ctx.prop);
            let out = check_trace(&script, &tr, rep);
            rep.add("ls_histories", 1);
            rep.add(&format!("ls_histories_{}", flavor.name()), 1);
            rep.add("ls_steps", script.steps.len() as u64);
            rep.add("ls_observations", tr.obs.len() as u64);
            rep.add("ls_ticks", out.ticks);
            rep.add("ls_reclaimed_by_ttl", out.reclaimed);
            rep.add("ls_evicted_for_room", out.evicted_for_room);
            rep.add("ls_rejected", out.rejected);
            rep.add("ls_clears", out.clears);
            rep.add("ls_updates", out.updates);
            rep.add("ls_vetoes", out.vetoes);
            rep.add("ls_lookups_scripted", out.lookups);
            if out.out_of_domain {
                rep.count("ls_histories_with_charge_sum_beyond_i64");
            }
            rep.add(&format!("ls_interval_ms_{}", tr.interval_ns / 1_000_000), 1);
            for o in tr.obs.iter() {
                rep.states.insert(hash_of(&(o.snap.store.iter().map(|e| (e.index, e.tag, e.ttl_ns)).collect::<Vec<_>>(), o.snap.used)));
            }
            let nontrivial = out.ticks > 0 || out.updates > 0;
            rep.case(nontrivial, hash_of(&format!("{:?}{:?}", script.steps, script.cfg)));
            if h < 2 {
                rep.sample(json!({"history": h, "flavor": flavor.name(), "script": script.describe(24), "observed": {"ticks": out.ticks, "reclaimed": out.reclaimed, "evicted_for_room": out.evicted_for_room, "clears": out.clears, "updates": out.updates}}));
            }
            let _ = before;
            if ctx.prop == "C11" && h % 2 == 0 && !fresh_equivalence(&script, &tr, flavor, watchdog, rep) {
                rep.add("histories_not_run_after_hang", histories - h - 1);
                break;
            }
        }
        if stop {
            rep.add("histories_not_run_after_hang", histories - h - 1);
            break;
        }
    }
}
