pub mod component;
pub mod differential;
pub mod gated;
pub mod hostile;
pub mod lifecycle;
pub mod lockstep;
pub mod types;

use crate::common::{Report, Rng};

pub struct Ctx {
    pub prop: String,
    pub tier: String,
    pub shard: u64,
    pub shards: u64,
    pub scale: f64,
    pub replay: Option<String>,
    pub flavors: Option<String>,
    pub quick_n: Option<u64>,
    pub thorough_n: Option<u64>,
    /// lockstep: use the generation profile of another property (violations keep their own tags)
    pub profile: Option<String>,
    /// hostile: force a mode
    pub mode: Option<String>,
}

impl Ctx {
    pub fn thorough(&self) -> bool {
        self.tier == "thorough"
    }
    /// scale a per-shard budget
    pub fn n(&self, quick: u64, thorough: u64) -> u64 {
        let base = if self.thorough() { thorough } else { quick };
        ((base as f64) * self.scale).max(1.0) as u64
    }
}

pub fn dispatch(engine: &str, ctx: &Ctx, rng: Rng, rep: &mut Report) {
    match engine {
        "sketch" => component::run_sketch(ctx, rng, rep),
        "bloom" => component::run_bloom(ctx, rng, rep),
        "keys" => component::run_keys(ctx, rng, rep),
        "policy" => component::run_policy(ctx, rng, rep),
        "lockstep" => lockstep::run(ctx, rng, rep),
        "hostile" => hostile::run(ctx, rng, rep),
        "differential" => differential::run(ctx, rng, rep),
        "gated" => gated::run(ctx, rng, rep),
        "types" => types::run_types(ctx, rng, rep),
        "close" => lifecycle::run_close(ctx, rng, rep),
        "waitrace" => lifecycle::run_waitrace(ctx, rng, rep),
        "grid" => lifecycle::run_grid(ctx, rng, rep),
        other => rep.inconclusive(format!("unknown engine {other}")),
    }
}
