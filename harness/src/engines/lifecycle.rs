//! Lifecycle monitors: close() semantics and worker termination (C12), wait() termination under
//! races with clear()/close() (C10), configuration grid (C20).
use super::lockstep::flavors_for;
use super::Ctx;
use crate::common::{fold_panics, hash_of, Report, Rng};
use crate::driver::{build, Cfg, Drv, Exec, Flavor, TASKS_COMPLETED, TASKS_DROPPED, TASKS_SPAWNED};
use crate::supervise::{op_done, phase, supervised, thread_count, Sup};
use crate::val::{self, Tracked};
use serde_json::{json, Value};
use std::sync::atomic::{AtomicBool, AtomicU64, Ordering};
use std::sync::Arc;
use std::time::{Duration, Instant};
use stretto::verif::{clock, counters, sched};

const ALL: [Flavor; 6] = [Flavor::Sync, Flavor::Async(Exec::TokioMt), Flavor::Async(Exec::TokioCt), Flavor::Async(Exec::AsyncStd), Flavor::Async(Exec::ThreadPerTask), Flavor::Async(Exec::Seeded)];

fn workers_gone(flavor: Flavor, timeout: Duration) -> bool {
    crate::supervise::polling(|| workers_gone_inner(flavor, timeout))
}

fn workers_gone_inner(flavor: Flavor, timeout: Duration) -> bool {
    let t0 = Instant::now();
    loop {
        let c = counters::snapshot();
        if c.CACHE_WORKERS_EXITED >= c.CACHE_WORKERS_STARTED && c.POLICY_WORKERS_EXITED >= c.POLICY_WORKERS_STARTED {
            return true;
        }
        if t0.elapsed() > timeout {
            return false;
        }
        if let Flavor::Async(e) = flavor {
            crate::driver::block_on(e, crate::driver::YieldNow(false));
        }
        std::thread::sleep(Duration::from_micros(200));
    }
}

fn fresh(flavor: Flavor, cfg: &Cfg) -> Result<Arc<dyn Drv>, String> {
    stretto::verif::reset();
    val::log_enable(false);
    let _ = val::take_log();
    val::VLD_MODE.store(0, Ordering::SeqCst);
    sched::set_role(100);
    build(flavor, cfg)
}

#[derive(Default)]
struct Findings(Vec<(String, String, String)>); // (property, signature, message)
impl Findings {
    fn add(&mut self, p: &str, sig: &str, msg: String) {
        self.0.push((p.into(), sig.into(), msg));
    }
}

// =============================================================================================
// C12
// =============================================================================================

fn warm(d: &dyn Drv, rng: &mut Rng, ids: &mut u64, n: u64) {
    for _ in 0..n {
        let k = rng.below(12);
        match rng.below(6) {
            0 => {
                let _ = d.try_remove(k);
            }
            1 => {
                let _ = d.get(k);
            }
            2 => {
                let _ = d.wait();
            }
            _ => {
                *ids += 1;
                let ttl = if rng.chance(1, 3) { Duration::from_millis(rng.range(1, 3000)) } else { Duration::ZERO };
                let _ = d.try_insert(k, Tracked::new(*ids, k), rng.range(1, 4) as i64, ttl);
            }
        }
        op_done();
    }
}

fn after_close_checks(d: &dyn Drv, f: &mut Findings, tag: &str) {
    // close() need not wait for the processor: what was buffered before the close may still be applied
    // or drained until the worker has gone; only then is a change attributable to the calls made below
    let _ = workers_gone(d.flavor(), Duration::from_secs(20));
    let before = d.snapshot();
    let r = d.try_insert(1, Tracked::new(u64::MAX - 1, 1), 1, Duration::ZERO);
    if r != Ok(false) {
        f.add("C12", "after-close/insert", format!("{tag}: insert after close() returned {r:?}, expected Ok(false)"));
    }
    let r = d.try_insert(2, Tracked::new(u64::MAX - 2, 2), 1, Duration::from_secs(1));
    if r != Ok(false) {
        f.add("C12", "after-close/insert", format!("{tag}: insert_with_ttl after close() returned {r:?}"));
    }
    let r = d.try_insert_if_present(1, Tracked::new(u64::MAX - 3, 1), 1);
    if r != Ok(false) {
        f.add("C12", "after-close/insert", format!("{tag}: insert_if_present after close() returned {r:?}"));
    }
    // an insert that raced close() may have left an entry in the (now invisible) store: no insert variant may
    // revive, replace or report success on it either - every key the scenarios use is probed
    for k in 0..12 {
        let held = before.store.iter().any(|e| e.index == crate::val::Kb::default().pair(k).0);
        let r = d.try_insert_if_present(k, Tracked::new(u64::MAX - 100 - k, k), 1);
        if r != Ok(false) {
            f.add("C12", "after-close/insert", format!("{tag}: insert_if_present({k}) after close() returned {r:?}, expected Ok(false) (entry left in the closed store by a racing insert: {held})"));
        }
        let r = d.try_insert(k, Tracked::new(u64::MAX - 200 - k, k), 1, Duration::ZERO);
        if r != Ok(false) {
            f.add("C12", "after-close/insert", format!("{tag}: insert({k}) after close() returned {r:?}, expected Ok(false) (entry left in the closed store: {held})"));
        }
    }
    for k in 0..12 {
        if d.get(k).is_some() || d.get_mut(k, None).is_some() {
            f.add("C12", "after-close/lookup", format!("{tag}: look-up of key {k} after close() returned a value"));
        }
    }
    for (name, r) in [("remove", d.try_remove(1)), ("clear", d.clear()), ("wait", d.wait()), ("close", d.close()), ("close", d.close())] {
        if let Err(e) = r {
            f.add("C12", "after-close/err", format!("{tag}: {name}() after close() returned Err({e})"));
        }
    }
    // the unwrapping variants must not panic either
    let _ = d.insert_plain(3, Tracked::new(u64::MAX - 4, 3), 1, None);
    d.remove_plain(3);
    let after = d.snapshot();
    if after.store.len() != before.store.len() || after.costs.len() != before.costs.len() || after.used != before.used {
        f.add("C12", "after-close/effect", format!("{tag}: operations after close() changed the cache: {} -> {} entries, used {} -> {}", before.store.len(), after.store.len(), before.used, after.used));
    }
}

fn close_scenario(flavor: Flavor, scen: u64, seed: u64) -> (Findings, Value) {
    let mut f = Findings::default();
    let mut rng = Rng::new(seed);
    let cfg = Cfg {
        max_cost: *rng.pick(&[5i64, 50, 100_000]),
        buffer_size: *rng.pick(&[1usize, 4, 64, 32 * 1024]),
        buffer_items: *rng.pick(&[1usize, 3, 64]),
        cleanup: Some(Duration::from_millis(*rng.pick(&[1u64, 50, 2000]))),
        manual_ticker: rng.chance(1, 2),
        ..Cfg::default()
    };
    let threads0 = thread_count();
    let (sp0, done0, dropped0) = (TASKS_SPAWNED.load(Ordering::SeqCst), TASKS_COMPLETED.load(Ordering::SeqCst), TASKS_DROPPED.load(Ordering::SeqCst));
    let d = match fresh(flavor, &cfg) {
        Ok(d) => d,
        Err(e) => {
            f.add("C20", "build/refused-valid-config", format!("{e}"));
            return (f, json!({"scenario": scen}));
        }
    };
    let mut ids = seed << 20;
    // the seventh scenario is directed: the closer is parked between its
    // clear() and its stop signal while another thread's insert is admitted, so that entries are resident
    // when close() returns
    let scen = if scen % 8 >= 6 && !flavor.gates_ok() { 0 } else { scen % 8 };
    let name = ["close-idle", "close-after-history", "concurrent-closers", "operations-racing-close", "drop-without-close", "close-with-pending-buffer", "insert-admitted-inside-close", "buffered-inserts-at-stop"][scen as usize];
    // values accepted by insert() while the processor is parked, to be accounted for after close() (scenario 7)
    let mut buffered_ids: Vec<u64> = Vec::new();
    let mut drained_at_stop = 0u64;
    phase("ops");
    match scen {
        7 => {
            // Directed: the closer is parked between its clear() and its stop signal, the processor is parked
            // holding one item, further inserts are accepted into the buffer; then the closer goes on (closed
            // flag, stop signal) and the processor is released. Whatever it has not handled when it takes the
            // stop arm is drained there. Every send precedes the stop signal, so every accepted value must
            // end resident or with exactly one callback (C08: only resident values may be dropped silently).
            val::log_enable(true);
            let closer_gate = sched::Gate::new();
            sched::arm_gate_for_role("close:after_clear", 9, closer_gate.clone());
            let h = d.clone_handle();
            let closer = std::thread::Builder::new().name("closer".into()).spawn(move || {
                sched::set_role(9);
                h.close()
            }).unwrap();
            phase("gate");
            if closer_gate.wait_arrival(Duration::from_secs(5)) {
                let proc_gate = sched::Gate::new();
                sched::arm_gate_for_role("proc:insert_arm", 0, proc_gate.clone());
                ids += 1;
                let _ = d.try_insert(100, Tracked::new(ids, 100), 1, Duration::ZERO);
                if proc_gate.wait_arrival(Duration::from_secs(5)) {
                    for k in 101..101 + rng.range(2, 6) {
                        ids += 1;
                        if d.try_insert(k, Tracked::new(ids, k), 1, Duration::ZERO) == Ok(true) {
                            buffered_ids.push(ids);
                        }
                    }
                }
                closer_gate.open();
                // let the closer set the closed flag and offer the stop signal before the processor goes on
                std::thread::sleep(Duration::from_millis(3));
                proc_gate.open();
            }
            closer_gate.open();
            sched::disarm_all();
            phase("close");
            match closer.join() {
                Ok(Err(e)) => f.add("C12", "close/error", format!("{name}: close() returned Err({e})")),
                Err(_) => f.add("C12", "close/panicked", format!("{name}: close() panicked")),
                _ => {}
            }
            // close() does not wait for the processor: what it still had in hand when it was released is
            // applied before it takes the stop signal; judge only once it has gone
            let _ = workers_gone(flavor, Duration::from_secs(20));
        }
        6 => {
            warm(d.as_ref(), &mut rng, &mut ids, 20);
            let gate = sched::Gate::new();
            sched::arm_gate_for_role("close:after_clear", 9, gate.clone());
            let h = d.clone_handle();
            let closer = std::thread::Builder::new().name("closer".into()).spawn(move || {
                sched::set_role(9);
                h.close()
            }).unwrap();
            phase("gate");
            let fired = gate.wait_arrival(Duration::from_secs(5));
            if fired {
                for k in [3u64, 7, 11] {
                    ids += 1;
                    let _ = d.try_insert(k, Tracked::new(ids, k), 1, if k == 7 { Duration::from_secs(3600) } else { Duration::ZERO });
                }
                let _ = crate::driver::wait_retry(d.as_ref(), Duration::from_secs(20));
            }
            gate.open();
            sched::disarm_all();
            phase("close");
            match closer.join() {
                Ok(Err(e)) => f.add("C12", "close/error", format!("{name}: close() returned Err({e})")),
                Err(_) => f.add("C12", "close/panicked", format!("{name}: close() panicked")),
                _ => {}
            }
        }
        0 => {}
        1 => {
            let n = rng.range(10, 300);
            warm(d.as_ref(), &mut rng, &mut ids, n)
        }
        2 => {
            warm(d.as_ref(), &mut rng, &mut ids, 50);
            let n = rng.range(2, 8);
            let errs = Arc::new(AtomicU64::new(0));
            let hs: Vec<_> = (0..n)
                .map(|i| {
                    let (h, errs) = (d.clone_handle(), errs.clone());
                    std::thread::Builder::new().name(format!("closer{i}")).spawn(move || {
                        sched::set_role(10 + i as u8);
                        if h.close().is_err() {
                            errs.fetch_add(1, Ordering::SeqCst);
                        }
                    }).unwrap()
                })
                .collect();
            phase("close");
            for h in hs {
                let _ = h.join();
            }
            // concurrent closers may lose the race for the stop channel and see an error; at least one succeeded
            if errs.load(Ordering::SeqCst) == n {
                f.add("C12", "close/all-concurrent-closers-failed", format!("{name}: all {n} concurrent close() calls returned Err"));
            }
        }
        3 => {
            warm(d.as_ref(), &mut rng, &mut ids, 30);
            let stop = Arc::new(AtomicBool::new(false));
            let n = rng.range(2, 6);
            let hs: Vec<_> = (0..n)
                .map(|i| {
                    let (h, stop, s2) = (d.clone_handle(), stop.clone(), seed ^ i);
                    std::thread::Builder::new().name(format!("racer{i}")).spawn(move || {
                        sched::set_role(20 + i as u8);
                        let mut r = Rng::new(s2);
                        let mut id = (s2 << 24) | 1;
                        let mut n = 0u64;
                        while !stop.load(Ordering::SeqCst) && n < 200_000 {
                            n += 1;
                            let k = r.below(12);
                            match r.below(8) {
                                0 => drop(h.try_remove(k)),
                                1 => drop(h.wait()),
                                2 => drop(h.get(k)),
                                3 => drop(h.get_mut(k, None)),
                                4 => drop(h.clear()),
                                5 => drop(h.get_ttl(k)),
                                _ => {
                                    id += 1;
                                    drop(h.try_insert(k, Tracked::new(id, k), 1, Duration::ZERO));
                                }
                            }
                            op_done();
                        }
                    }).unwrap()
                })
                .collect();
            std::thread::sleep(Duration::from_micros(rng.range(0, 3000)));
            phase("close");
            if let Err(e) = d.close() {
                // another racer's clear() cannot make close fail; an error here is reported
                f.add("C12", "close/error", format!("{name}: close() returned Err({e}) while other threads were using the cache"));
            }
            stop.store(true, Ordering::SeqCst);
            for h in hs {
                let _ = h.join();
            }
        }
        4 => {
            let n = rng.range(0, 100);
            warm(d.as_ref(), &mut rng, &mut ids, n);
        }
        _ => {
            // close with items still buffered (processor slowed down by delays)
            sched::arm_delays(seed | 1, 600, 300);
            for i in 0..rng.range(1, 64) {
                ids += 1;
                let _ = d.try_insert(i % 12, Tracked::new(ids, i % 12), 1, Duration::ZERO);
            }
        }
    }
    phase("close");
    let mut resident_after_close = 0u64;
    let mut resident_tags_after_close: Vec<u64> = Vec::new();
    if scen == 6 {
        resident_after_close = d.snapshot().store.len() as u64;
    }
    if scen == 7 {
        resident_tags_after_close = d.snapshot().store.iter().map(|e| e.tag).collect();
    }
    if scen != 4 {
        if scen != 2 && scen != 3 && scen != 6 && scen != 7 {
            if let Err(e) = d.close() {
                f.add("C12", "close/error", format!("{name}: close() returned Err({e})"));
            }
        }
        after_close_checks(d.as_ref(), &mut f, name);
    }
    sched::arm_delays(1, 0, 0);
    phase("drop");
    drop(d);
    if !workers_gone(flavor, Duration::from_secs(20)) {
        let c = counters::snapshot();
        f.add("C12", if scen == 4 { "workers/alive-after-drop" } else { "workers/alive-after-close" }, format!("{name}: workers still running 20 s later: cache {}/{} policy {}/{} exited", c.CACHE_WORKERS_EXITED, c.CACHE_WORKERS_STARTED, c.POLICY_WORKERS_EXITED, c.POLICY_WORKERS_STARTED));
    } else if flavor == Flavor::Sync {
        // OS threads really gone
        let t0 = Instant::now();
        while thread_count() > threads0 && t0.elapsed() < Duration::from_secs(10) {
            std::thread::sleep(Duration::from_millis(1));
        }
        if thread_count() > threads0 {
            f.add("C12", "workers/threads-left", format!("{name}: {} OS threads before, {} after", threads0, thread_count()));
        }
    } else {
        let t0 = Instant::now();
        loop {
            let sp = TASKS_SPAWNED.load(Ordering::SeqCst) - sp0;
            let fin = TASKS_COMPLETED.load(Ordering::SeqCst) - done0 + TASKS_DROPPED.load(Ordering::SeqCst) - dropped0;
            if fin >= sp {
                break;
            }
            if t0.elapsed() > Duration::from_secs(10) {
                f.add("C12", "workers/tasks-left", format!("{name}: {sp} tasks spawned, {fin} finished"));
                break;
            }
            if let Flavor::Async(e) = flavor {
                crate::driver::block_on(e, crate::driver::YieldNow(false));
            }
        }
    }
    if scen == 7 {
        let log = val::take_log();
        val::log_enable(false);
        for id in buffered_ids.iter() {
            let cbs = log.iter().filter(|e| matches!(e.kind, val::EvKind::Cb { id: i, .. } if i == *id)).count();
            let resident = resident_tags_after_close.contains(id);
            if cbs == 1 && !resident {
                drained_at_stop += 1;
            }
            if cbs > 1 || (cbs == 1 && resident) {
                f.add("C08", "close/buffered-value-two-exits", format!("{name}: value #{id:x} accepted into the buffer before the stop signal: {cbs} callbacks, resident after close: {resident}"));
            }
            if cbs == 0 && !resident {
                f.add("C08", "close/buffered-value-lost-without-callback", format!("{name}: value #{id:x} was accepted by insert() (true) into the buffer before close() sent its stop signal; after close() it is neither resident nor has it been handed to any callback"));
            }
        }
    }
    let c = counters::snapshot();
    if c.WORKERS_PANICKED > 0 {
        f.add("C12", "workers/panicked", format!("{name}: {} workers ended by panic", c.WORKERS_PANICKED));
    }
    (f, json!({"scenario": name, "flavor": flavor.name(), "config": format!("{cfg:?}"), "seed": seed, "resident_after_close": resident_after_close, "buffered_accepted": buffered_ids.len(), "drained_at_stop": drained_at_stop}))
}

// =============================================================================================
// C10: wait() always returns
// =============================================================================================

fn wait_race_scenario(flavor: Flavor, scen: u64, seed: u64) -> (Findings, Value) {
    let mut f = Findings::default();
    let mut rng = Rng::new(seed);
    let buffer = *rng.pick(&[1usize, 2, 16, 32 * 1024]);
    let cfg = Cfg { max_cost: 1000, buffer_size: buffer, buffer_items: *rng.pick(&[1usize, 64]), manual_ticker: true, ..Cfg::default() };
    let d = match fresh(flavor, &cfg) {
        Ok(d) => d,
        Err(e) => {
            f.add("C20", "build/refused-valid-config", e);
            return (f, json!({}));
        }
    };
    clock::set(1_700_000_000_000_000_000);
    let name = ["waiters-vs-close", "waiters-vs-clear", "waiters-vs-clear-and-close", "readers-and-writers-one-shard"][scen as usize % 4];
    if rng.chance(1, 2) {
        sched::arm_delays(seed | 1, *rng.pick(&[100u32, 500]), *rng.pick(&[50u32, 300]));
    }
    let stop = Arc::new(AtomicBool::new(false));
    let stats = Arc::new((AtomicU64::new(0), AtomicU64::new(0), AtomicU64::new(0))); // wait ok, wait err, err with room
    let mut hs = Vec::new();
    let nwait = rng.range(1, 6);
    for i in 0..nwait {
        let (h, stop, stats, s2) = (d.clone_handle(), stop.clone(), stats.clone(), seed ^ (i << 8));
        hs.push(std::thread::Builder::new().name(format!("waiter{i}")).spawn(move || {
            sched::set_role(30 + i as u8);
            let mut r = Rng::new(s2);
            let mut id = (s2 << 24) | 1;
            let mut n = 0;
            while !stop.load(Ordering::SeqCst) && n < 100_000 {
                n += 1;
                for _ in 0..r.below(4) {
                    id += 1;
                    let k = r.below(8);
                    if r.chance(1, 4) {
                        let _ = h.try_remove(k);
                    } else {
                        let _ = h.try_insert(k, Tracked::new(id, k), 1, Duration::ZERO);
                    }
                }
                match h.wait() {
                    Ok(()) => stats.0.fetch_add(1, Ordering::SeqCst),
                    Err(_) => stats.1.fetch_add(1, Ordering::SeqCst),
                };
                op_done();
            }
        }).unwrap());
    }
    if scen % 4 == 3 {
        // get_ttl / get / get_mut readers and writers on keys of one shard (multiples of 256)
        for i in 0..4u64 {
            let (h, stop) = (d.clone_handle(), stop.clone());
            hs.push(std::thread::Builder::new().name(format!("reader{i}")).spawn(move || {
                sched::set_role(40 + i as u8);
                let mut n = 0u64;
                while !stop.load(Ordering::SeqCst) && n < 400_000 {
                    n += 1;
                    let k = (n % 3) * 256;
                    let _ = h.get_ttl(k);
                    if n % 16 == 0 {
                        let _ = h.get(k);
                    }
                    if n % 64 == 0 {
                        let _ = h.get_mut(k, None);
                    }
                    if n % 1024 == 0 {
                        op_done();
                    }
                }
            }).unwrap());
        }
        for i in 0..2u64 {
            let (h, stop, s2) = (d.clone_handle(), stop.clone(), seed ^ (i << 16));
            hs.push(std::thread::Builder::new().name(format!("writer{i}")).spawn(move || {
                sched::set_role(50 + i as u8);
                let mut id = (s2 << 24) | 1;
                let mut n = 0u64;
                while !stop.load(Ordering::SeqCst) && n < 200_000 {
                    n += 1;
                    id += 1;
                    let k = (n % 3) * 256;
                    if n % 5 == 0 {
                        let _ = h.try_remove(k);
                    } else {
                        let _ = h.try_insert(k, Tracked::new(id, k), 1, Duration::from_secs(60));
                    }
                    if n % 256 == 0 {
                        op_done();
                    }
                }
            }).unwrap());
        }
    }
    let dur = Duration::from_millis(rng.range(5, 60));
    let t0 = Instant::now();
    phase("ops");
    let mut clears = 0;
    while t0.elapsed() < dur {
        if scen % 4 == 1 || scen % 4 == 2 {
            phase("clear");
            let _ = d.clear();
            clears += 1;
        }
        std::thread::sleep(Duration::from_micros(rng.range(10, 800)));
    }
    let mut parked_after_final_drain = 0u64;
    if scen % 4 == 0 || scen % 4 == 2 {
        phase("close");
        // directed half: the processor is parked right after its final drain (it still owns the receiving
        // end of the insert buffer) while the waiters go on calling wait() on the closed cache
        let gate = if flavor.gates_ok() && seed % 2 == 0 {
            let g = sched::Gate::new();
            sched::arm_gate_for_role("proc:after_final_drain", 0, g.clone());
            Some(g)
        } else {
            None
        };
        if let Err(e) = d.close() {
            f.add("C12", "close/error", format!("{name}: close() returned Err({e})"));
        }
        if let Some(g) = gate {
            if g.wait_arrival(Duration::from_secs(2)) {
                parked_after_final_drain = 1;
                std::thread::sleep(Duration::from_millis(5));
            }
            g.open();
        }
    }
    stop.store(true, Ordering::SeqCst);
    phase("join-clients");
    for h in hs {
        let _ = h.join();
    }
    phase("close");
    let _ = d.close();
    sched::arm_delays(1, 0, 0);
    drop(d);
    let _ = workers_gone(flavor, Duration::from_secs(20));
    (f, json!({"scenario": name, "flavor": flavor.name(), "buffer": buffer, "waiters": nwait, "clears": clears, "wait_ok": stats.0.load(Ordering::SeqCst), "wait_err": stats.1.load(Ordering::SeqCst), "seed": seed, "parked_after_final_drain": parked_after_final_drain}))
}

// =============================================================================================
// C20
// =============================================================================================

/// "any positive cleanup interval": besides milliseconds the grid has two sub-millisecond intervals
pub const CLEANUP_1NS: u64 = u64::MAX;
pub const CLEANUP_1US: u64 = u64::MAX - 1;
/// ... and two huge ones
pub const CLEANUP_MAX: u64 = u64::MAX - 2;
pub const CLEANUP_U64_SECS: u64 = u64::MAX - 3;
fn cleanup_of(v: u64) -> Option<Duration> {
    match v {
        0 => None,
        CLEANUP_1NS => Some(Duration::from_nanos(1)),
        CLEANUP_1US => Some(Duration::from_micros(1)),
        CLEANUP_MAX => Some(Duration::MAX),
        CLEANUP_U64_SECS => Some(Duration::from_secs(u64::MAX)),
        ms => Some(Duration::from_millis(ms)),
    }
}

fn grid_scenario(flavor: Flavor, cfgv: (usize, i64, usize, usize, bool, bool, u64), seed: u64) -> (Findings, Value) {
    let mut f = Findings::default();
    let (nc, mc, bs, bi, metrics, ignore, cleanup_ms) = cfgv;
    let cfg = Cfg { num_counters: nc, max_cost: mc, buffer_size: bs, buffer_items: bi, metrics, ignore_internal: ignore, cleanup: cleanup_of(cleanup_ms), collide: false, collide_zero_even: false, manual_ticker: false };
    let desc = json!({"flavor": flavor.name(), "cleanup": format!("{:?}", cleanup_of(cleanup_ms)), "num_counters": nc, "max_cost": mc, "buffer_size": bs, "buffer_items": bi, "metrics": metrics, "ignore_internal_cost": ignore, "cleanup_ms": cleanup_ms, "seed": seed});
    let zero = nc == 0 || mc == 0 || bs == 0;
    let r = fresh(flavor, &cfg);
    if zero {
        let want = if nc == 0 { "num_counters" } else if mc == 0 { "max_cost" } else { "buffer" };
        match r {
            Ok(d) => {
                f.add("C20", "builder/zero-parameter-accepted", format!("builder accepted {want} = 0"));
                let _ = d.close();
            }
            Err(e) => {
                let el = e.to_lowercase();
                let ok = match want {
                    "num_counters" => el.contains("num_counters") || el.contains("numcounters") || el.contains("counters"),
                    "max_cost" => el.contains("max_cost") || el.contains("maxcost") || el.contains("max cost"),
                    _ => el.contains("buffer"),
                };
                if !ok {
                    f.add("C20", "builder/wrong-error", format!("{want} = 0 rejected with an unrelated error: {e}"));
                }
            }
        }
        return (f, desc);
    }
    let d = match r {
        Ok(d) => d,
        Err(e) => {
            f.add("C20", "build/refused-valid-config", format!("builder refused a valid configuration: {e}"));
            return (f, desc);
        }
    };
    let mut rng = Rng::new(seed);
    let mut id = seed << 24;
    phase("ops");
    // inserts (costs incl. boundaries), look-ups (enough to flush the ring and to cross aging resets),
    // removes, TTL expiry, evictions, clear; plain (unwrapping) variants wherever they cannot fail by design
    let keys = 24u64;
    for round in 0..3 {
        for i in 0..rng.range(40, 160) {
            id += 1;
            let k = rng.below(keys);
            match rng.below(12) {
                0 => {
                    let _ = d.try_remove(k);
                }
                1 | 2 | 3 => {
                    // enough look-ups to flush the ring (buffer_items) and, for small widths, to cross aging resets
                    for _ in 0..(bi as u64).max(1) + rng.range(1, (nc as u64).clamp(2, 16)) {
                        let _ = d.get(k);
                    }
                    let _ = d.get_mut(k, None);
                    let _ = d.get_ttl(k);
                }
                4 => {
                    let _ = d.insert_if_present_plain(k, Tracked::new(id, k), 1);
                }
                5 => {
                    let _ = d.wait();
                }
                _ => {
                    let cost = *rng.pick(&[0i64, 1, 1, 2, 3, mc.saturating_sub(1).max(0), mc.max(0), mc.saturating_add(1).max(0), 1 << 40, i64::MAX]);
                    let ttl = if rng.chance(1, 3) { Some(Duration::from_millis(rng.range(1, 40))) } else if rng.chance(1, 2) { Some(Duration::ZERO) } else { None };
                    let _ = d.insert_plain(k, Tracked::with_aux(id, k, rng.range(0, 3) as i64), cost, ttl);
                }
            }
            if i % 16 == 0 {
                op_done();
            }
        }
        if round == 1 {
            phase("clear");
            if let Err(e) = d.clear() {
                f.add("C20", "op/unexpected-error", format!("clear() returned Err({e})"));
            }
        }
        std::thread::sleep(Duration::from_millis(if cleanup_ms > 0 && (cleanup_ms <= 5 || cleanup_ms == CLEANUP_1US || cleanup_ms == CLEANUP_1NS) { 12 } else { 1 }));
    }
    // the workers are alive, wait() returns Ok, a final insert is still processed
    phase("wait");
    let waited = crate::driver::wait_retry(d.as_ref(), Duration::from_secs(30));
    if let Err(e) = &waited {
        f.add("C20", "wait/never-ok", format!("wait() kept failing on an idle cache: {e}"));
    }
    // reading every metric must not panic either
    let _ = d.metrics();
    let _ = d.ratio();
    let _ = d.life_histogram();
    let c = counters::snapshot();
    if c.CACHE_WORKERS_EXITED > 0 || c.POLICY_WORKERS_EXITED > 0 || c.WORKERS_PANICKED > 0 {
        f.add("C20", "worker/died", format!("a background worker ended before close(): cache {}/{} policy {}/{} panicked {}", c.CACHE_WORKERS_EXITED, c.CACHE_WORKERS_STARTED, c.POLICY_WORKERS_EXITED, c.POLICY_WORKERS_STARTED, c.WORKERS_PANICKED));
    }
    let handled0 = counters::get(&counters::ITEMS_HANDLED);
    id += 1;
    let accepted = d.insert_plain(1, Tracked::new(id, 1), 1, None);
    let t1 = Instant::now();
    while accepted && counters::get(&counters::ITEMS_HANDLED) <= handled0 && t1.elapsed() < Duration::from_secs(20) {
        let _ = d.drive_until(&|| counters::get(&counters::ITEMS_HANDLED) > handled0, Duration::from_millis(50));
    }
    if accepted && counters::get(&counters::ITEMS_HANDLED) <= handled0 {
        f.add("C20", "worker/not-processing", "a final insert was accepted but never handled by the processor".into());
    }
    phase("close");
    if let Err(e) = d.close() {
        f.add("C20", "close/error", format!("close() returned Err({e})"));
    }
    drop(d);
    if !workers_gone(flavor, Duration::from_secs(20)) {
        f.add("C20", "workers/alive-after-close", "workers still running 20 s after close()".into());
    }
    (f, desc)
}

pub fn grid_values(thorough: bool) -> Vec<(usize, i64, usize, usize, bool, bool, u64)> {
    let mut ncs: Vec<usize> = (0..=70).collect();
    ncs.extend([100, 1000]);
    let mcs = [0i64, 1, 2, 10, -1, -100, 1 << 62];
    let bss = [0usize, 1, 2, 8];
    let bis = [0usize, 1, 2, 64];
    let cls = [1u64, 1000, 0, CLEANUP_1NS, CLEANUP_1US, CLEANUP_MAX, CLEANUP_U64_SECS];
    let mut v = Vec::new();
    if thorough {
        for &nc in &ncs {
            for &mc in &mcs {
                for &bs in &bss {
                    for &bi in &bis {
                        for m in [false, true] {
                            for ig in [false, true] {
                                for &cl in &cls {
                                    v.push((nc, mc, bs, bi, m, ig, cl));
                                }
                            }
                        }
                    }
                }
            }
        }
    } else {
        // pairwise-style coverage: every num_counters with rotating partners, plus every pair of the small parameters
        let mut i = 0usize;
        for &nc in &ncs {
            // two partners under which evictions and estimator traffic are certain (small max_cost,
            // internal cost ignored, small look-up batches), then rotating ones incl. the zero values
            v.push((nc, 2, 8, 1, nc % 2 == 0, true, 1));
            v.push((nc, 10, 2, 2, nc % 2 == 1, true, 1000));
            for j in 0..3 {
                i += 1;
                v.push((nc, mcs[(i + j) % mcs.len()], bss[(i / 2 + j) % bss.len()], bis[(i / 3 + j) % bis.len()], (i + j) % 2 == 0, (i / 2) % 2 == 0, cls[(i + j) % cls.len()]));
            }
        }
        for &mc in &mcs {
            for &bs in &bss {
                for &bi in &bis {
                    i += 1;
                    v.push((ncs[1 + i % 70], mc, bs, bi, i % 2 == 0, (i / 2) % 2 == 0, cls[i % cls.len()]));
                }
            }
        }
    }
    v
}

// =============================================================================================
// engine loops
// =============================================================================================

fn run_scenarios(ctx: &Ctx, rng: Rng, rep: &mut Report, kind: &str, count: u64, flavors: &[Flavor], props_on_hang: &[&str]) {
    let watchdog = Duration::from_secs(if ctx.thorough() { 300 } else { 180 });
    let grid = if kind == "grid" { grid_values(ctx.thorough()) } else { Vec::new() };
    let total = if kind == "grid" { grid.len() as u64 } else { count };
    for i in 0..total {
        if ctx.shards > 1 && i % ctx.shards != ctx.shard {
            continue;
        }
        let mut r = rng.derive(i);
        let seed = r.next() >> 20;
        let flavor = flavors[(i / if kind == "close" { 8 } else { 6 } % flavors.len() as u64) as usize];
        let flavor = if kind == "grid" { flavors[(i % flavors.len() as u64) as usize] } else { flavor };
        let (k2, g2) = (kind.to_string(), grid.get(i as usize).cloned());
        let sup = supervised(kind, watchdog, move || match k2.as_str() {
            "close" => close_scenario(flavor, i, seed),
            "waitrace" => wait_race_scenario(flavor, i, seed),
            _ => grid_scenario(flavor, g2.unwrap(), seed),
        });
        let mut stop = false;
        let ctxj = json!({"engine": kind, "index": i, "flavor": flavor.name(), "seed": seed, "grid": format!("{:?}", grid.get(i as usize))});
        match sup {
            Sup::Done((f, desc)) => {
                rep.count(&format!("lc_{kind}_scenarios"));
                rep.count(&format!("lc_{kind}_{}", flavor.name()));
                if let Some(n) = desc.get("scenario").and_then(|s| s.as_str()) {
                    rep.count(&format!("lc_scenario_{n}"));
                }
                if let Some(n) = desc.get("parked_after_final_drain").and_then(|s| s.as_u64()) {
                    rep.add("lc_closes_with_processor_parked_after_final_drain", n);
                }
                if let Some(n) = desc.get("buffered_accepted").and_then(|s| s.as_u64()) {
                    rep.add("lc_values_buffered_before_the_stop_signal", n);
                }
                if let Some(n) = desc.get("drained_at_stop").and_then(|s| s.as_u64()) {
                    rep.add("lc_buffered_values_handed_to_a_callback_at_stop", n);
                }
                if let Some(n) = desc.get("resident_after_close").and_then(|s| s.as_u64()) {
                    rep.add("lc_entries_resident_when_close_returned", n);
                }
                if let Some(n) = desc.get("wait_ok").and_then(|s| s.as_u64()) {
                    rep.add("lc_wait_ok", n);
                    rep.add("lc_wait_err", desc["wait_err"].as_u64().unwrap_or(0));
                    rep.add("lc_clears", desc["clears"].as_u64().unwrap_or(0));
                }
                for (p, sig, msg) in f.0 {
                    rep.violate(&p, &sig, msg, desc.clone());
                }
                rep.case(true, hash_of(&format!("{desc}")));
                if rep.samples.len() < 3 {
                    rep.sample(desc);
                }
            }
            Sup::Panicked => rep.count("scenarios_ended_by_panic"),
            Sup::Hang(diag) => {
                let sig = format!("hang/{}", diag["phase"].as_str().unwrap_or("?"));
                for p in props_on_hang {
                    rep.violate(p, &sig, format!("{}: a call into the cache never returned (phase {}): {}", flavor.name(), diag["phase"], diag["kind"].as_str().unwrap_or("no thread can make progress")), json!({"scenario": ctxj, "diagnosis": diag}));
                }
                rep.count("hangs");
                stop = true;
            }
            Sup::Timeout(diag) => {
                rep.inconclusive(format!("watchdog fired without a definitive diagnosis: {diag}"));
                stop = true;
            }
        }
        let mut props: Vec<&str> = vec!["C20"];
        props.extend_from_slice(props_on_hang);
        props.dedup();
        fold_panics(rep, &props, &ctxj);
        if stop {
            rep.add("scenarios_not_run_after_hang", total - i - 1);
            break;
        }
    }
}

pub fn run_close(ctx: &Ctx, rng: Rng, rep: &mut Report) {
    let flavors = flavors_for(ctx, &ALL, &ALL);
    run_scenarios(ctx, rng, rep, "close", ctx.n(ctx.quick_n.unwrap_or(240), ctx.thorough_n.unwrap_or(6000)), &flavors, &["C12"]);
}

pub fn run_waitrace(ctx: &Ctx, rng: Rng, rep: &mut Report) {
    let flavors = flavors_for(ctx, &ALL, &ALL);
    run_scenarios(ctx, rng, rep, "waitrace", ctx.n(ctx.quick_n.unwrap_or(200), ctx.thorough_n.unwrap_or(5000)), &flavors, &["C10"]);
}

pub fn run_grid(ctx: &Ctx, rng: Rng, rep: &mut Report) {
    let flavors = flavors_for(ctx, &[Flavor::Sync, Flavor::Async(Exec::TokioMt), Flavor::Async(Exec::ThreadPerTask)], &ALL);
    run_scenarios(ctx, rng, rep, "grid", 0, &flavors, &["C20"]);
}
