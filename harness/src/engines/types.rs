//! C16 across value types, and the real-ticker scenario of C05 (the tick arm's own wiring).
use super::Ctx;
use crate::common::{fold_panics, hash_of, Report, Rng};
use crate::driver::{block_on, build, Cfg, Exec, Flavor};
use crate::supervise::{supervised, Sup};
use crate::val::{self, EvKind, Tracked, CB_EVICT};
use serde_json::json;
use std::marker::PhantomData;
use std::sync::{Arc, Mutex};
use std::time::Duration;
use stretto::verif::{clock, counters};
use stretto::{AsyncCacheBuilder, CacheBuilder, CacheCallback, Coster, Item, TransparentKeyBuilder};

// ---------------------------------------------------------------------------------------------
// C16: charge == explicit cost (or Coster value) + one constant overhead per value type
// ---------------------------------------------------------------------------------------------

pub trait Sample: Send + Sync + 'static {
    fn make(i: u64) -> Self;
    fn weight(&self) -> i64;
    fn name() -> &'static str;
}
macro_rules! sample {
    ($t:ty, $name:expr, $make:expr, $w:expr) => {
        impl Sample for $t {
            fn make(i: u64) -> Self {
                ($make)(i)
            }
            fn weight(&self) -> i64 {
                ($w)(self)
            }
            fn name() -> &'static str {
                $name
            }
        }
    };
}
sample!(u8, "u8 (1 byte)", |i: u64| i as u8, |v: &u8| 1 + (*v % 5) as i64);
sample!(u64, "u64 (8 bytes)", |i: u64| i, |v: &u64| 1 + (*v % 5) as i64);
sample!([u8; 64], "[u8; 64]", |i: u64| [i as u8; 64], |v: &[u8; 64]| 1 + (v[0] % 5) as i64);
sample!([u8; 4096], "[u8; 4096]", |i: u64| [i as u8; 4096], |v: &[u8; 4096]| 1 + (v[0] % 5) as i64);
sample!(String, "String", |i: u64| "x".repeat((i % 40) as usize), |v: &String| 1 + v.len() as i64);
sample!(Vec<u64>, "Vec<u64>", |i: u64| vec![i; (i % 9) as usize], |v: &Vec<u64>| 1 + v.len() as i64);

pub struct WCoster<V>(PhantomData<fn(V)>);
impl<V: Sample> Coster for WCoster<V> {
    type Value = V;
    fn cost(&self, v: &V) -> i64 {
        v.weight()
    }
}
pub struct CostLog<V>(Arc<Mutex<Vec<(u8, u64, i64)>>>, PhantomData<fn(V)>);
impl<V> Clone for CostLog<V> {
    fn clone(&self) -> Self {
        CostLog(self.0.clone(), PhantomData)
    }
}
impl<V: Sample> CacheCallback for CostLog<V> {
    type Value = V;
    fn on_exit(&self, _v: Option<V>) {}
    fn on_evict(&self, it: Item<V>) {
        self.0.lock().unwrap().push((1, it.index, it.cost));
    }
    fn on_reject(&self, it: Item<V>) {
        self.0.lock().unwrap().push((2, it.index, it.cost));
    }
}

fn types_case<V: Sample>(is_async: bool, ignore: bool, rng: &mut Rng, rep: &mut Report) {
    stretto::verif::reset();
    let log = CostLog::<V>(Arc::new(Mutex::new(Vec::new())), PhantomData);
    let desc = json!({"value_type": V::name(), "size_of_value": std::mem::size_of::<V>(), "async": is_async, "ignore_internal_cost": ignore});
    macro_rules! fail {
        ($sig:expr, $($a:tt)*) => { rep.violate("C16", $sig, format!($($a)*), desc.clone()) };
    }
    // operations: (key, explicit cost) ; cost 0 = the Coster decides
    let ops: Vec<(u64, i64)> = (0..40).map(|_| (rng.below(6), *rng.pick(&[0i64, 0, 1, 7, 1 << 31, 3, 12]))).collect();
    let mut expect: std::collections::HashMap<u64, i64> = std::collections::HashMap::new();
    let mut item_size_seen: Option<usize> = None;
    let mut check = |snap: stretto::verif::Snapshot, expect: &std::collections::HashMap<u64, i64>, rep: &mut Report, step: usize| {
        if let Some(s) = item_size_seen {
            if s != snap.item_size {
                rep.violate("C16", "overhead/not-constant", format!("internal overhead changed from {s} to {}", snap.item_size), desc.clone());
            }
        }
        item_size_seen = Some(snap.item_size);
        // (how large the fixed overhead is - in particular whether the value is stored inline - is not part of the statement)
        if snap.item_size == 0 {
            rep.violate("C16", "overhead/zero", "internal overhead reported as 0".into(), desc.clone());
        }
        let overhead = if ignore { 0 } else { snap.item_size as i64 };
        let charged: std::collections::HashMap<u64, i64> = snap.costs.iter().cloned().collect();
        for (k, c) in expect.iter() {
            rep.count("c16_type_charge_checks");
            match charged.get(k) {
                Some(got) if *got == c + overhead => {}
                other => rep.violate("C16", "charge/mismatch-by-type", format!("step {step}: key {k} charged {other:?}, expected {} + overhead {overhead}", c), desc.clone()),
            }
        }
    };
    if !is_async {
        let c = CacheBuilder::new_with_key_builder(1000, 1 << 40, TransparentKeyBuilder::<u64>::default())
            .set_coster(WCoster::<V>(PhantomData))
            .set_callback(log.clone())
            .set_ignore_internal_cost(ignore)
            .finalize()
            .unwrap();
        for (i, (k, cost)) in ops.iter().enumerate() {
            let v = V::make(rng.next());
            let w = v.weight();
            if !c.insert(*k, v, *cost) {
                fail!("insert/returned-false", "insert returned false");
            }
            c.wait().unwrap();
            expect.insert(*k, if *cost == 0 { w } else { *cost });
            check(c.verif_snapshot(|_| 0), &expect, rep, i);
        }
        // shrink the budget: the evicted entries report their charge
        let snap = c.verif_snapshot(|_| 0);
        let charged: std::collections::HashMap<u64, i64> = snap.costs.iter().cloned().collect();
        c.update_max_cost(1);
        c.insert(99, V::make(1), 1);
        c.wait().unwrap();
        for (kind, idx, cost) in log.0.lock().unwrap().iter() {
            rep.count("c16_type_callback_cost_checks");
            if *kind == 1 {
                if charged.get(idx) != Some(cost) {
                    fail!("callback/evict-cost-by-type", "on_evict(index {idx}) reported cost {cost}, charge was {:?}", charged.get(idx));
                }
            }
        }
        c.close().unwrap();
    } else {
        let e = Exec::TokioMt;
        let c = {
            let b = AsyncCacheBuilder::new_with_key_builder(1000, 1 << 40, TransparentKeyBuilder::<u64>::default())
                .set_coster(WCoster::<V>(PhantomData))
                .set_callback(log.clone())
                .set_ignore_internal_cost(ignore);
            // tokio's spawn needs a runtime context: enter through block_on
            block_on(e, async { b.finalize(tokio::spawn).unwrap() })
        };
        for (i, (k, cost)) in ops.iter().enumerate() {
            let v = V::make(rng.next());
            let w = v.weight();
            let ok = block_on(e, async {
                let ok = c.insert(*k, v, *cost).await;
                c.wait().await.unwrap();
                ok
            });
            if !ok {
                fail!("insert/returned-false", "insert returned false");
            }
            expect.insert(*k, if *cost == 0 { w } else { *cost });
            check(c.verif_snapshot(|_| 0), &expect, rep, i);
        }
        block_on(e, async { c.close().await.unwrap() });
    }
    rep.case(true, hash_of(&(V::name(), is_async, ignore, rng.0)));
}

pub fn run_types(ctx: &Ctx, rng: Rng, rep: &mut Report) {
    let rounds = ctx.n(3, 60);
    for round in 0..rounds {
        for is_async in [false, true] {
            for ignore in [false, true] {
                let mut r = rng.derive(round * 4 + is_async as u64 * 2 + ignore as u64);
                let seeds: Vec<u64> = (0..6).map(|_| r.next()).collect();
                let sup = supervised("types", Duration::from_secs(120), move || {
                    let mut local = Report::default();
                    types_case::<u8>(is_async, ignore, &mut Rng::new(seeds[0]), &mut local);
                    types_case::<u64>(is_async, ignore, &mut Rng::new(seeds[1]), &mut local);
                    types_case::<[u8; 64]>(is_async, ignore, &mut Rng::new(seeds[2]), &mut local);
                    types_case::<[u8; 4096]>(is_async, ignore, &mut Rng::new(seeds[3]), &mut local);
                    types_case::<String>(is_async, ignore, &mut Rng::new(seeds[4]), &mut local);
                    types_case::<Vec<u64>>(is_async, ignore, &mut Rng::new(seeds[5]), &mut local);
                    local
                });
                match sup {
                    Sup::Done(local) => rep.merge(local),
                    Sup::Panicked => rep.count("scenarios_ended_by_panic"),
                    Sup::Hang(d) => {
                        rep.violate("C16", "hang/value-types", "value-type scenario never finished".into(), d);
                        return;
                    }
                    Sup::Timeout(d) => {
                        rep.inconclusive(format!("value-type scenario: watchdog: {d}"));
                        return;
                    }
                }
                fold_panics(rep, &["C16", "C20"], &json!({"engine": "types", "async": is_async, "ignore": ignore}));
            }
        }
    }
    rep.sample(json!({"value_types": ["u8", "u64", "[u8;64]", "[u8;4096]", "String", "Vec<u64>"], "per_type": "40 inserts/updates of 6 keys with explicit costs {1,3,7,12,2^31} or 0 (Coster = value-dependent weight), both ignore_internal_cost settings, sync and tokio"}));
}

// ---------------------------------------------------------------------------------------------
// C05: the real ticker (10 ms) with the virtual clock: the tick arm's wiring itself
// ---------------------------------------------------------------------------------------------

pub fn real_ticker_scenario(flavor: Flavor, seed: u64, rep: &mut Report) {
    let sup = supervised("real-ticker", Duration::from_secs(120), move || {
        let mut local = Report::default();
        stretto::verif::reset();
        val::log_enable(false);
        let _ = val::take_log();
        val::VLD_MODE.store(0, std::sync::atomic::Ordering::SeqCst);
        let t0 = 1_700_000_000_000_000_000u64 + (seed % 1000) * 1_000_000;
        clock::set(t0);
        val::log_enable(true);
        let cfg = Cfg { max_cost: 100, cleanup: Some(Duration::from_millis(10)), manual_ticker: false, ..Cfg::default() };
        let d = build(flavor, &cfg).expect("build");
        let desc = json!({"scenario": "real ticker 10 ms, virtual clock", "flavor": flavor.name(), "seed": seed});
        for (k, ttl_ms) in [(1u64, 1000u64), (2, 3000), (3, 0)] {
            let _ = d.try_insert(k, Tracked::new(seed << 8 | k, k), 1, Duration::from_millis(ttl_ms));
        }
        let _ = d.wait();
        clock::set(t0 + 2_600_000_000);
        // bounded progress in ticks, not in wall-clock time: after a few real ticks the expired entry is gone
        let n0 = counters::get(&counters::TICKS_DONE);
        let ticked = d.drive_until(&|| counters::get(&counters::TICKS_DONE) >= n0 + 5, Duration::from_secs(60));
        if !ticked {
            local.violate("C05", "real-ticker/no-ticks", format!("the cleanup ticker (10 ms) produced {} ticks in 60 s", counters::get(&counters::TICKS_DONE) - n0), desc.clone());
        } else {
            let _ = d.wait();
            let snap = d.snapshot();
            let store: Vec<u64> = snap.store.iter().map(|e| e.index).collect();
            let policy: Vec<u64> = snap.costs.iter().map(|e| e.0).collect();
            let evicted: Vec<u64> = val::log_since(0).iter().filter_map(|e| if let EvKind::Cb { kind: CB_EVICT, key, .. } = e.kind { Some(key) } else { None }).collect();
            local.count("c05_real_ticker_scenarios");
            if store.contains(&1) || policy.contains(&1) || evicted.iter().filter(|k| **k == 1).count() != 1 || d.len() != 2 {
                local.violate("C05", "real-ticker/not-reclaimed", format!("entry expired 1.6 s ago and 5 real ticks later: store {store:?}, policy {policy:?}, on_evict for {evicted:?}, len {}", d.len()), desc.clone());
            }
            if !store.contains(&2) || !store.contains(&3) || evicted.iter().any(|k| *k != 1) {
                local.violate("C05", "real-ticker/removed-unexpired", format!("unexpired entries touched by the real ticker: store {store:?}, on_evict for {evicted:?}"), desc.clone());
            }
        }
        let _ = d.close();
        drop(d);
        val::log_enable(false);
        local
    });
    match sup {
        Sup::Done(l) => rep.merge(l),
        Sup::Hang(d) => rep.violate("C05", "real-ticker/hang", "real-ticker scenario never finished".into(), d),
        Sup::Timeout(d) => rep.inconclusive(format!("real-ticker scenario: watchdog: {d}")),
        Sup::Panicked => rep.count("scenarios_ended_by_panic"),
    }
}

// ---------------------------------------------------------------------------------------------
// C17: ratio() and the hit/miss counters over windows that contain only hits, only misses, nothing
// (the lockstep probe looks every key of the universe up after every step, so its windows always
// contain misses)
// ---------------------------------------------------------------------------------------------

pub fn ratio_scenario(flavor: Flavor, seed: u64, rep: &mut Report) {
    let sup = supervised("ratio", Duration::from_secs(120), move || {
        let mut local = Report::default();
        let mut rng = Rng::new(seed);
        stretto::verif::reset();
        val::log_enable(false);
        let _ = val::take_log();
        val::VLD_MODE.store(0, std::sync::atomic::Ordering::SeqCst);
        clock::set(1_700_000_000_000_000_000u64);
        let cfg = Cfg { max_cost: 1 << 30, buffer_items: *rng.pick(&[1usize, 3, 64]), ..Cfg::default() };
        let d = build(flavor, &cfg).expect("build");
        let nkeys = rng.range(1, 6);
        let mut windows = 0u64;
        for round in 0..rng.range(3, 8) {
            let desc = json!({"scenario": "hit/miss windows", "flavor": flavor.name(), "seed": seed, "round": round});
            for k in 0..nkeys {
                let _ = d.try_insert(k, Tracked::new(seed << 16 | round << 8 | k, k), 1, Duration::ZERO);
            }
            if crate::driver::wait_retry(&*d, Duration::from_secs(60)).is_err() {
                break;
            }
            let m0 = d.metrics().unwrap_or([0; 11]);
            let r0 = d.ratio();
            let want0 = if m0[0] + m0[1] == 0 { 0.0 } else { m0[0] as f64 / (m0[0] + m0[1]) as f64 };
            if let Some(r) = r0 {
                if (r - want0).abs() > 1e-12 {
                    local.violate("C17", "metrics/ratio", format!("ratio() = {r} with hits {} and misses {} (expected {want0})", m0[0], m0[1]), desc.clone());
                }
            }
            // a window of (possibly zero) hits, then of (possibly zero) misses, checked after each part
            let hits = *rng.pick(&[0u64, 1, 2, 5, 17]);
            let misses = *rng.pick(&[0u64, 0, 1, 3, 9]);
            let mut made_hits = 0u64;
            for i in 0..hits {
                if d.get(i % nkeys).is_some() {
                    made_hits += 1;
                }
            }
            let made_misses_in_hits = hits - made_hits;
            let check = |what: &str, h: u64, m: u64, local: &mut Report| {
                let got = d.metrics().unwrap_or([0; 11]);
                let want_r = if h + m == 0 { 0.0 } else { h as f64 / (h + m) as f64 };
                local.count("c17_ratio_windows_checked");
                if got[0] != h || got[1] != m {
                    local.violate("C17", "metrics/hits-plus-misses", format!("{what}: hits {} misses {}, the look-ups made since the last clear were {h} hits and {m} misses", got[0], got[1]), desc.clone());
                }
                match d.ratio() {
                    Some(r) if (r - want_r).abs() > 1e-12 => local.violate("C17", "metrics/ratio", format!("{what}: ratio() = {r}, hits {h} / (hits {h} + misses {m}) = {want_r}"), desc.clone()),
                    None => local.violate("C17", "metrics/ratio", format!("{what}: ratio() = None with metrics enabled"), desc.clone()),
                    _ => {}
                }
            };
            check("after the hits", m0[0] + made_hits, m0[1] + made_misses_in_hits, &mut local);
            for i in 0..misses {
                let _ = d.get(1000 + i);
            }
            check("after the misses", m0[0] + made_hits, m0[1] + made_misses_in_hits + misses, &mut local);
            windows += 1;
            if rng.chance(2, 3) {
                if d.clear().is_err() {
                    break;
                }
                let _ = crate::driver::wait_retry(&*d, Duration::from_secs(60));
                check("right after clear()", 0, 0, &mut local);
            }
        }
        local.add("c17_ratio_scenarios", 1);
        local.add("c17_ratio_rounds", windows);
        let _ = d.close();
        drop(d);
        local
    });
    match sup {
        Sup::Done(l) => rep.merge(l),
        Sup::Hang(d) => rep.violate("C17", "ratio/hang", "ratio scenario never finished".into(), d),
        Sup::Timeout(d) => rep.inconclusive(format!("ratio scenario: watchdog: {d}")),
        Sup::Panicked => rep.count("scenarios_ended_by_panic"),
    }
}
