//! Gated mode: directed schedules on the real code. One thread is parked at a named yield point
//! inside a critical window while another operation runs to completion (or is observed to block,
//! which is legal for operations that wait for the processor); then the gate is opened, the cache is
//! quiesced and the same oracles as in hostile mode are applied, plus immediacy clauses.
use super::hostile::{begin, check_history, finish, HCfg, Hist, OpRec, OP_CLEAR, OP_GET, OP_GET_MUT_WRITE, OP_INSERT, OP_REMOVE, OP_WAIT};
use super::lockstep::{flavors_for, PROGRESS_PROPS};
use super::Ctx;
use crate::common::{fold_panics, hash_of, Report, Rng};
use crate::driver::{Cfg, Drv, Exec, Flavor};
use crate::supervise::{op_done, phase, supervised, Sup};
use crate::val::{self, Tracked};
use serde_json::json;
use std::sync::atomic::{AtomicU64, Ordering};
use std::sync::{Arc, Mutex};
use std::time::Duration;
use stretto::verif::{clock, counters, sched, seq, ticker};

/// (yield point, role of the thread to park: 0 = background processor, 2 = the triggering client, trigger)
pub const POINTS: [(&str, u8, &str); 25] = [
    ("proc:insert_arm", 0, "insert-new"),
    ("policy:add:enter", 0, "insert-new"),
    ("item:new:after_policy_add", 0, "insert-new"),
    ("store:insert:enter", 0, "insert-new"),
    ("item:new:after_store_insert", 0, "insert-new"),
    ("item:new:before_victim_remove", 0, "insert-new"),
    ("item:update:before_policy_update", 0, "update"),
    ("policy:update:enter", 0, "update"),
    ("policy:remove:enter", 0, "remove"),
    ("item:delete:after_policy_remove", 0, "remove"),
    ("store:remove:enter", 0, "remove"),
    ("cleanup:after_buckets_taken", 0, "tick"),
    ("cleanup:after_expiry_check", 0, "tick"),
    ("proc:clear_arm", 0, "clear"),
    ("clear:after_drain", 0, "clear"),
    ("clear:after_policy_clear", 0, "clear"),
    ("clear:after_store_clear", 0, "clear"),
    ("store:remove:enter", 2, "remove"),
    ("remove:after_store_remove", 2, "remove"),
    ("store:update:enter", 2, "update"),
    ("update:after_store_update", 2, "update"),
    ("store:update:enter", 2, "insert-new"),
    ("insert:before_send", 2, "insert-new"),
    ("wait:before_send", 2, "wait"),
    ("clear:after_signal", 2, "clear"),
];
pub const RACERS: [&str; 13] = ["clear", "remove-same", "update-same", "insert-other", "get_mut-write", "tick", "wait", "get-same", "remove-other", "if-present-pending", "remove-inflight", "insert-inflight", "hold-guard"];

struct Rec(Mutex<Vec<OpRec>>);
impl Rec {
    fn push(&self, r: OpRec) {
        self.0.lock().unwrap().push(r);
        op_done();
    }
}

fn do_insert(d: &dyn Drv, rec: &Rec, tid: u8, ids: &AtomicU64, k: u64, cost: i64, ttl_ns: u64) -> OpRec {
    let id = ids.fetch_add(1, Ordering::SeqCst);
    let mut r = OpRec { tid, op: OP_INSERT, key: k, id, cost, ttl_ns, ..Default::default() };
    let before = val::tl_exits();
    r.vcall = clock::now_ns();
    r.call = seq::next();
    match d.try_insert(k, Tracked::new(id, k), cost, Duration::from_nanos(ttl_ns)) {
        Ok(b) => r.ok = b,
        Err(_) => r.err = true,
    }
    r.ret = seq::next();
    let after = val::tl_exits();
    r.update_path = after.0 != before.0;
    r.exited_id = if r.update_path { after.1 } else { 0 };
    rec.push(r.clone());
    r
}
fn do_get(d: &dyn Drv, rec: &Rec, tid: u8, k: u64) -> OpRec {
    let mut r = OpRec { tid, op: OP_GET, key: k, ..Default::default() };
    r.call = seq::next();
    if let Some(s) = d.get(k) {
        r.hit = true;
        r.seen_id = s.id;
        r.seen_key = s.key;
    }
    r.ret = seq::next();
    rec.push(r.clone());
    r
}
fn do_simple(d: &dyn Drv, rec: &Rec, tid: u8, op: u8, k: u64, ids: &AtomicU64) -> OpRec {
    let mut r = OpRec { tid, op, key: k, ..Default::default() };
    let write = if op == OP_GET_MUT_WRITE { Some(ids.fetch_add(1, Ordering::SeqCst)) } else { None };
    r.id = write.unwrap_or(0);
    r.call = seq::next();
    match op {
        OP_REMOVE => match d.try_remove(k) {
            Ok(()) => r.ok = true,
            Err(_) => r.err = true,
        },
        OP_WAIT => match d.wait() {
            Ok(()) => r.ok = true,
            Err(_) => r.err = true,
        },
        OP_CLEAR => match d.clear() {
            Ok(()) => r.ok = true,
            Err(_) => r.err = true,
        },
        OP_GET_MUT_WRITE => {
            if let Some(s) = d.get_mut(k, write) {
                r.hit = true;
                r.seen_id = s.id;
                r.seen_key = s.key;
            }
        }
        _ => {}
    }
    r.ret = seq::next();
    rec.push(r.clone());
    r
}

pub struct GatedOutcome {
    pub hist: Hist,
    pub fired: bool,
    pub racer_blocked: bool,
    pub immediacy: Vec<String>,
}

fn scenario(flavor: Flavor, point: &'static str, role: u8, trig: &'static str, racer: &'static str, seed: u64) -> GatedOutcome {
    let mut rng = Rng::new(seed);
    let keys = 6u64;
    let tight = matches!(point, "item:new:before_victim_remove" | "cleanup:after_buckets_taken" | "cleanup:after_expiry_check") || rng.chance(1, 3);
    let h = HCfg {
        cfg: Cfg { num_counters: 1000, max_cost: if tight { 4 } else { 1000 }, buffer_size: *rng.pick(&[16usize, 64, 1024]), buffer_items: 64, metrics: true, ignore_internal: true, cleanup: Some(Duration::from_millis(500)), collide: false, collide_zero_even: false, manual_ticker: true },
        mode: "mixed",
        threads: 0,
        keys,
        ops: 0,
        delays: None,
        timekeeper: false,
        w: [0; 10],
        ttl_share: 0,
        cost_max: 1,
        start_ns: 1_700_000_000_000_000_000 + (seed % 1000) * 1_000_000,
        vld_mode: 0,
        seed,
    };
    let d = begin(flavor, &h);
    let rec = Arc::new(Rec(Mutex::new(Vec::new())));
    let ids = Arc::new(AtomicU64::new((seed << 20) | 1));
    let mut immediacy = Vec::new();
    phase("ops");
    // residents: keys 0..3 (cost 1 each); key 1 carries a TTL
    for k in 0..4u64 {
        do_insert(d.as_ref(), &rec, 1, &ids, k, 1, if k == 1 { 300_000_000 } else { 0 });
    }
    do_simple(d.as_ref(), &rec, 1, OP_WAIT, 0, &ids);
    for k in 0..4u64 {
        do_get(d.as_ref(), &rec, 1, k);
    }
    let gate = sched::Gate::new();
    sched::arm_gate_for_role(point, role, gate.clone());
    // ---- trigger: the activity that runs into the point (thread A)
    // the key both sides work on; for the cleanup points it is the key the tick finds expired
    let same = if trig == "tick" { 1u64 } else { 2u64 };
    let inflight = if trig == "insert-new" { 5u64 } else { same };
    // a racing write on the key under cleanup refreshes it: without TTL, or with one that is still running
    let racer_ttl_ns = if trig == "tick" && rng.chance(1, 2) { 10_000_000_000u64 } else { 0 };
    let trigger: Box<dyn FnOnce(Arc<dyn Drv>, Arc<Rec>, Arc<AtomicU64>) + Send> = match trig {
        "insert-new" => Box::new(move |d, rec, ids| {
            do_insert(d.as_ref(), &rec, 2, &ids, 5, 1, 0);
        }),
        "update" => Box::new(move |d, rec, ids| {
            do_insert(d.as_ref(), &rec, 2, &ids, same, 1, 0);
        }),
        "remove" => Box::new(move |d, rec, ids| {
            do_simple(d.as_ref(), &rec, 2, OP_REMOVE, same, &ids);
        }),
        "tick" => Box::new(move |_d, _rec, _ids| {
            clock::advance(Duration::from_secs(3));
            ticker::tick();
        }),
        "wait" => Box::new(move |d, rec, ids| {
            do_simple(d.as_ref(), &rec, 2, OP_WAIT, 0, &ids);
        }),
        _ => Box::new(move |d, rec, ids| {
            do_simple(d.as_ref(), &rec, 2, OP_CLEAR, 0, &ids);
        }),
    };
    let (d2, rec2, ids2) = (d.clone_handle(), rec.clone(), ids.clone());
    let ta = std::thread::Builder::new().name("gate-trigger".into()).spawn(move || {
        sched::set_role(2);
        trigger(d2, rec2, ids2)
    }).unwrap();
    phase("gate");
    let fired = gate.wait_arrival(Duration::from_secs(3));
    let mut racer_blocked = false;
    if fired {
        if role != 0 {
            // a client is parked: give the processor the time to apply what that client has already queued
            std::thread::sleep(Duration::from_millis(2));
        }
        // ---- the racing operation (thread B), while A / the processor is parked inside the window
        let (d3, rec3, ids3) = (d.clone_handle(), rec.clone(), ids.clone());
        let done = Arc::new(AtomicU64::new(0));
        let done2 = done.clone();
        let (acquired, release) = (Arc::new(AtomicU64::new(0)), Arc::new(AtomicU64::new(0)));
        let (acquired3, release3) = (acquired.clone(), release.clone());
        let hold_mutable = seed % 2 == 1;
        let tb = std::thread::Builder::new().name("gate-racer".into()).spawn(move || {
            sched::set_role(3);
            let mut out: Vec<String> = Vec::new();
            match racer {
                "clear" => drop(do_simple(d3.as_ref(), &rec3, 3, OP_CLEAR, 0, &ids3)),
                "remove-same" => {
                    let before = do_get(d3.as_ref(), &rec3, 3, same);
                    do_simple(d3.as_ref(), &rec3, 3, OP_REMOVE, same, &ids3);
                    let after = do_get(d3.as_ref(), &rec3, 3, same);
                    if before.hit && after.hit && after.seen_id == before.seen_id {
                        out.push(format!("remove(k{same}) returned, yet the value #{:x} seen before it is still returned", after.seen_id));
                    }
                }
                "remove-other" => drop(do_simple(d3.as_ref(), &rec3, 3, OP_REMOVE, 3, &ids3)),
                // the key whose first insert is in flight (key 5 for the insert-new trigger; otherwise the shared key)
                "remove-inflight" => drop(do_simple(d3.as_ref(), &rec3, 3, OP_REMOVE, inflight, &ids3)),
                "insert-inflight" => {
                    do_insert(d3.as_ref(), &rec3, 3, &ids3, inflight, 1, racer_ttl_ns);
                    do_get(d3.as_ref(), &rec3, 3, inflight);
                }
                "update-same" => {
                    let w = do_insert(d3.as_ref(), &rec3, 3, &ids3, same, 1, racer_ttl_ns);
                    let after = do_get(d3.as_ref(), &rec3, 3, same);
                    if w.ok && w.update_path && !(after.hit && after.seen_id == w.id) {
                        out.push(format!("insert on resident k{same} took the update path (#{:x}) but the next look-up returned {}", w.id, if after.hit { format!("#{:x}", after.seen_id) } else { "nothing".into() }));
                    }
                }
                "insert-other" => drop(do_insert(d3.as_ref(), &rec3, 3, &ids3, 4, 1, 0)),
                "if-present-pending" => {
                    // key 5 is the one whose first insert may still be buffered; key 2 is resident
                    for k in [5u64, same] {
                        let id = ids3.fetch_add(1, Ordering::SeqCst);
                        let mut r = OpRec { tid: 3, op: super::hostile::OP_IF_PRESENT, key: k, id, cost: 1, ..Default::default() };
                        let before = val::tl_exits();
                        r.call = seq::next();
                        match d3.try_insert_if_present(k, Tracked::new(id, k), 1) {
                            Ok(b) => r.ok = b,
                            Err(_) => r.err = true,
                        }
                        r.ret = seq::next();
                        let after = val::tl_exits();
                        r.update_path = after.0 != before.0;
                        r.exited_id = if r.update_path { after.1 } else { 0 };
                        rec3.push(r);
                    }
                }
                "get_mut-write" => drop(do_simple(d3.as_ref(), &rec3, 3, OP_GET_MUT_WRITE, same, &ids3)),
                // a look-up guard (the shard lock) on the shared key, held until after the parked thread has
                // been released: whatever that thread does next meets a held shard lock
                "hold-guard" => {
                    let mut r = OpRec { tid: 3, op: OP_GET, key: same, ..Default::default() };
                    r.call = seq::next();
                    let (acq, rel) = (acquired3.clone(), release3.clone());
                    let got = d3.get_hold(same, hold_mutable, &move || {
                        acq.store(1, Ordering::SeqCst);
                        let t0 = std::time::Instant::now();
                        while rel.load(Ordering::SeqCst) == 0 && t0.elapsed() < Duration::from_secs(5) {
                            std::thread::yield_now();
                        }
                    });
                    acquired3.store(1, Ordering::SeqCst);
                    r.ret = seq::next();
                    if let Some(s) = got {
                        r.hit = true;
                        r.seen_id = s.id;
                        r.seen_key = s.key;
                    }
                    rec3.push(r);
                }
                "tick" => {
                    clock::advance(Duration::from_secs(2));
                    ticker::tick();
                }
                "wait" => drop(do_simple(d3.as_ref(), &rec3, 3, OP_WAIT, 0, &ids3)),
                _ => drop(do_get(d3.as_ref(), &rec3, 3, same)),
            }
            done2.store(1, Ordering::SeqCst);
            out
        }).unwrap();
        // give the racer time to finish; if it does not, it is waiting for the parked thread (legal)
        let t0 = std::time::Instant::now();
        while done.load(Ordering::SeqCst) == 0 && t0.elapsed() < Duration::from_millis(150) && !(racer == "hold-guard" && acquired.load(Ordering::SeqCst) != 0) {
            std::thread::sleep(Duration::from_micros(200));
        }
        racer_blocked = done.load(Ordering::SeqCst) == 0 && racer != "hold-guard";
        gate.open();
        if racer == "hold-guard" {
            // the released thread runs into the held shard lock (or past it); then the guard is dropped
            std::thread::sleep(Duration::from_millis(4));
            release.store(1, Ordering::SeqCst);
        }
        if let Ok(v) = tb.join() {
            immediacy.extend(v);
        }
    }
    gate.open();
    sched::disarm_all();
    sched::record(true);
    let _ = ta.join();
    // pressure after the race: further admissions must keep what is resident within max_cost (C01),
    // whatever the race left behind (an entry the policy no longer charges cannot be chosen as a victim)
    if fired {
        do_simple(d.as_ref(), &rec, 1, OP_WAIT, 0, &ids);
        for k in [4u64, 5, 0, 3] {
            do_insert(d.as_ref(), &rec, 1, &ids, k, 1, 0);
            do_simple(d.as_ref(), &rec, 1, OP_WAIT, 0, &ids);
        }
    }
    let ticks_sent = counters::get(&counters::TICKS_STARTED).max(counters::get(&counters::TICKS_DONE));
    // ticks fed by the scenario itself
    let fed = (trig == "tick") as u64 + (fired && racer == "tick") as u64;
    let _ = ticks_sent;
    let ops = std::mem::take(&mut *rec.0.lock().unwrap());
    let hist = finish(flavor, &h, d, ops, fed, (0, 0, 0, 0, Vec::new()));
    GatedOutcome { hist, fired, racer_blocked, immediacy }
}

pub fn run(ctx: &Ctx, rng: Rng, rep: &mut Report) {
    let flavors = flavors_for(ctx, &[Flavor::Sync, Flavor::Async(Exec::TokioMt)], &[Flavor::Sync, Flavor::Async(Exec::TokioMt), Flavor::Async(Exec::AsyncStd), Flavor::Async(Exec::ThreadPerTask)]);
    let flavors: Vec<Flavor> = flavors.into_iter().filter(|f| f.gates_ok()).collect();
    let reps = ctx.n(ctx.quick_n.unwrap_or(1), ctx.thorough_n.unwrap_or(6));
    let watchdog = Duration::from_secs(120);
    let mut idx = 0u64;
    'outer: for rep_no in 0..reps {
        for (point, role, trig) in POINTS.iter() {
            for racer in RACERS.iter() {
                for flavor in flavors.iter() {
                    idx += 1;
                    if ctx.shards > 1 && idx % ctx.shards != ctx.shard {
                        continue;
                    }
                    // the full list of pairs is enumerated in both tiers (quick: two flavours, one seed)
                    let seed = rng.derive(idx).next() >> 24;
                    let (p, r, f, ro, tg) = (*point, *racer, *flavor, *role, *trig);
                    let sup = supervised("gated", watchdog, move || scenario(f, p, ro, tg, r, seed));
                    let ctxj = json!({"point": p, "parked": if ro == 0 { "processor" } else { "client" }, "trigger": tg, "racer": r, "flavor": f.name(), "seed": seed});
                    let mut stop = false;
                    match sup {
                        Sup::Done(o) => {
                            rep.count("ga_scenarios");
                            if o.fired {
                                rep.count("ga_gates_fired");
                                rep.count(&format!("ga_fired_{p}@{}", if ro == 0 { "processor" } else { "client" }));
                            } else {
                                rep.count("ga_gates_not_reached");
                                rep.count(&format!("ga_not_reached_{p}@{}", if ro == 0 { "processor" } else { "client" }));
                            }
                            if o.racer_blocked {
                                rep.count("ga_racer_waited_for_parked_thread");
                            }
                            for m in o.immediacy.iter() {
                                rep.violate("C02", if m.contains("remove") { "gated/remove-not-immediate" } else { "gated/update-not-immediate" }, format!("with {} parked at {p}: {m}", if ro == 0 { "the processor" } else { "a client" }), json!({"scenario": ctxj, "operations": o.hist.ops.iter().map(|x| format!("{:?}", (x.call, x.ret, x.tid, x.op, x.key, x.id, x.ok, x.hit, x.seen_id))).collect::<Vec<_>>()}));
                            }
                            let mut local = Report::default();
                            check_history(&o.hist, &mut local);
                            for v in local.violations.iter_mut() {
                                v.signature = format!("gated/{}", v.signature);
                                v.witness["gated_scenario"] = ctxj.clone();
                            }
                            let counts: Vec<(String, u64)> = local.violation_counts.iter().map(|(k, n)| (k.clone(), *n)).collect();
                            local.violation_counts.clear();
                            for (k, n) in counts {
                                let (pp, ss) = k.split_once('|').unwrap();
                                local.violation_counts.insert(format!("{pp}|gated/{ss}"), n);
                            }
                            rep.merge(local);
                            rep.fingerprints.insert(hash_of(&(p, ro, tg, r, f.name(), o.fired, o.racer_blocked)));
                            rep.case(o.fired, hash_of(&(p, ro, tg, r, f.name())));
                            if rep.samples.len() < 3 && o.fired {
                                rep.sample(json!({"scenario": ctxj, "racer_waited": o.racer_blocked, "operations": o.hist.ops.iter().take(20).map(|x| format!("[{}..{}] t{} op{} k{} ok={} hit={}", x.call, x.ret, x.tid, x.op, x.key, x.ok, x.hit)).collect::<Vec<_>>()}));
                            }
                        }
                        Sup::Panicked => rep.count("scenarios_ended_by_panic"),
                        Sup::Hang(diag) => {
                            for pp in PROGRESS_PROPS.iter() {
                                rep.violate(pp, "gated/hang", format!("{}: gated scenario {p} x {r} never finished: no thread can make progress (phase {})", f.name(), diag["phase"]), json!({"scenario": ctxj, "diagnosis": diag}));
                            }
                            stop = true;
                        }
                        Sup::Timeout(diag) => {
                            rep.inconclusive(format!("gated {p} x {r}: watchdog without a definitive diagnosis: {diag}"));
                            stop = true;
                        }
                    }
                    fold_panics(rep, &["C20", &ctx.prop], &ctxj);
                    if stop {
                        break 'outer;
                    }
                }
            }
        }
    }
}
