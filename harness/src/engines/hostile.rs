//! Hostile mode: several client threads on few keys, seeded delays at the yield points, a
//! time-keeper advancing the virtual clock and feeding cleanup ticks. Many short histories; each is
//! decided by offline checkers over the recorded history and by invariants at the quiescent end.
use super::lockstep::{flavors_for, PROGRESS_PROPS};
use super::Ctx;
use crate::common::{fold_panics, hash_of, Report, Rng};
use crate::driver::{build, Cfg, Drv, Flavor};
use crate::policylog::check_policy_log;
use crate::supervise::{op_done, phase, supervised, Sup};
use crate::val::{self, Ev, EvKind, Tracked, CB_EVICT, CB_EXIT, CB_REJECT};
use serde_json::{json, Value};
use std::collections::{HashMap, HashSet};
use std::sync::atomic::{AtomicBool, AtomicU64, Ordering};
use std::sync::Arc;
use std::time::Duration;
use stretto::verif::{clock, counters, observe, sched, seq, ticker, Snapshot};

pub const OP_INSERT: u8 = 0;
pub const OP_IF_PRESENT: u8 = 1;
pub const OP_GET: u8 = 2;
pub const OP_GET_MUT: u8 = 3;
pub const OP_GET_MUT_WRITE: u8 = 4;
pub const OP_GET_TTL: u8 = 5;
pub const OP_REMOVE: u8 = 6;
pub const OP_WAIT: u8 = 7;
pub const OP_CLEAR: u8 = 8;
pub const OP_MAXCOST: u8 = 9;
const OP_NAMES: [&str; 10] = ["insert", "insert_if_present", "get", "get_mut", "get_mut+write", "get_ttl", "remove", "wait", "clear", "update_max_cost"];

#[derive(Clone, Debug, Default)]
pub struct OpRec {
    pub tid: u8,
    pub call: u64,
    pub ret: u64,
    pub op: u8,
    pub key: u64,
    /// id written (insert variants, get_mut+write)
    pub id: u64,
    pub cost: i64,
    pub aux: i64,
    pub ttl_ns: u64,
    /// returned true / Ok
    pub ok: bool,
    pub err: bool,
    pub seen_id: u64,
    pub seen_key: u64,
    pub hit: bool,
    /// on_exit ran on the calling thread inside the call: the update path was taken
    pub update_path: bool,
    pub exited_id: u64,
    /// virtual clock when the call began (insert variants): the entry's deadline is at least vcall + ttl
    pub vcall: u64,
}

impl OpRec {
    fn short(&self) -> String {
        format!(
            "[{}..{}] t{} {}(k{}{}) -> {}{}",
            self.call,
            self.ret,
            self.tid,
            OP_NAMES[self.op as usize],
            self.key,
            if self.id != 0 { format!(", #{:x}", self.id) } else { String::new() },
            if self.err { "Err".to_string() } else if self.hit { format!("#{:x}", self.seen_id) } else { format!("{}", self.ok) },
            if self.update_path { " (update path)" } else { "" }
        )
    }
}

#[derive(Clone, Debug)]
pub struct HCfg {
    pub cfg: Cfg,
    pub mode: &'static str, // mixed | barrier | readers
    pub threads: u8,
    pub keys: u64,
    pub ops: u32,
    pub delays: Option<(u32, u32)>,
    pub timekeeper: bool,
    pub w: [u32; 10], // weights per op code
    pub ttl_share: u32, // of 10 inserts
    pub cost_max: i64,
    pub start_ns: u64,
    pub vld_mode: u8,
    pub seed: u64,
}

pub struct Hist {
    pub h: HCfg,
    pub flavor: Flavor,
    pub ops: Vec<OpRec>,
    pub events: Vec<Ev>,
    pub policy: Vec<observe::Ev>,
    pub snap: Snapshot,
    pub final_gets: Vec<OpRec>,
    pub metrics: Option<[u64; 11]>,
    pub counters: counters::Counters,
    pub ticks_sent: u64,
    pub arrivals: Vec<(&'static str, u8)>,
    pub end_seq: u64,
    pub close_err: Option<String>,
    pub quiesce_err: Option<String>,
    pub barrier_checks: u64,
    pub barrier_skipped: u64,
    pub barrier_single_key_verdicts: u64,
    pub barrier_multi_write_keys: u64,
    pub barrier_violations: Vec<(u64, u64, String)>,
    pub leaked: Vec<u64>,
    pub buffer_cap: usize,
    /// virtual time of the last cleanup tick, fed after the clients have been joined
    pub final_tick_ns: u64,
}

fn ttl_for(rng: &mut Rng) -> u64 {
    match rng.below(4) {
        0 => 1_000_000 * rng.range(20, 400),
        1 => 1_000_000 * rng.range(400, 2000),
        2 => 1_000_000_000 * rng.range(1, 3),
        _ => 1_000_000 * rng.range(1, 30),
    }
}

/// One client. Returns its op records (+ barrier-mode verdicts).
fn client(d: Arc<dyn Drv>, h: HCfg, tid: u8, ids: Arc<AtomicU64>, clears: Arc<(AtomicU64, AtomicU64, AtomicU64)>) -> (Vec<OpRec>, u64, u64, Vec<(u64, u64, String)>) {
    sched::set_role(tid);
    let mut rng = Rng::new(h.seed ^ (tid as u64) << 32 ^ 0xabcdef);
    let mut recs: Vec<OpRec> = Vec::with_capacity(h.ops as usize + 8);
    let total: u32 = h.w.iter().sum();
    let barrier = h.mode == "barrier";
    // barrier mode: own keys, in-order model of own operations
    let mut cur: HashMap<u64, Option<u64>> = HashMap::new();
    let mut unknown: HashSet<u64> = HashSet::new();
    let mut tainted: HashSet<u64> = HashSet::new();
    let mut batch: HashMap<u64, Option<u64>> = HashMap::new();
    // writes per key since the last judged barrier: only keys with exactly one are decided exactly
    let mut batch_n: HashMap<u64, u32> = HashMap::new();
    let mut batch_err = false;
    // (started, finished) clear() calls when the current batch began
    let mut batch_clear_started = (clears.0.load(Ordering::SeqCst), clears.1.load(Ordering::SeqCst));
    let (mut checks, mut skipped) = (0u64, 0u64);
    let (mut single, mut multi) = (0u64, 0u64);
    let mut bad: Vec<(u64, u64, String)> = Vec::new();
    let mut extra: Vec<OpRec> = Vec::new();
    let mut i = 0u32;
    while i < h.ops {
        i += 1;
        let mut r = rng.below(total as u64) as u32;
        let mut op = 0u8;
        for (c, w) in h.w.iter().enumerate() {
            if r < *w {
                op = c as u8;
                break;
            }
            r -= *w;
        }
        let mut key = if barrier { tid as u64 * 1000 + rng.below(h.keys) } else { rng.below(h.keys) };
        if h.mode == "pairs" {
            // fresh keys, each taken by two consecutive callers: one inserts it, the other removes it
            let n = clears.2.fetch_add(1, Ordering::SeqCst);
            key = 10_000 + n / 2;
            op = if n % 2 == 0 { OP_INSERT } else { OP_REMOVE };
            if rng.chance(1, 6) {
                op = OP_INSERT;
            }
        }
        if barrier && batch_n.contains_key(&key) && rng.chance(4, 5) {
            // prefer a key this batch has not written yet
            for _ in 0..4 {
                let k2 = tid as u64 * 1000 + rng.below(h.keys);
                if !batch_n.contains_key(&k2) {
                    key = k2;
                    break;
                }
            }
        }
        let mut rec = OpRec { tid, op, key, ..Default::default() };
        let _ = &mut op;
        match op {
            OP_INSERT | OP_IF_PRESENT => {
                let id = ids.fetch_add(1, Ordering::SeqCst);
                rec.id = id;
                rec.cost = rng.range(1, h.cost_max as u64) as i64;
                rec.ttl_ns = if op == OP_INSERT && rng.below(10) < h.ttl_share as u64 { ttl_for(&mut rng) } else { 0 };
                rec.aux = if h.mode == "hammer" { rng.range(0, 1000) as i64 } else { rng.range(0, 4) as i64 };
                let v = Tracked::with_aux(id, key, rec.aux);
                let before = val::tl_exits();
                rec.vcall = stretto::verif::clock::now_ns();
                rec.call = seq::next();
                let res = if op == OP_INSERT { d.try_insert(key, v, rec.cost, Duration::from_nanos(rec.ttl_ns)) } else { d.try_insert_if_present(key, v, rec.cost) };
                rec.ret = seq::next();
                let after = val::tl_exits();
                rec.update_path = after.0 != before.0;
                rec.exited_id = if rec.update_path { after.1 } else { 0 };
                match res {
                    Ok(b) => rec.ok = b,
                    Err(_) => rec.err = true,
                }
                if barrier {
                    *batch_n.entry(key).or_insert(0) += 1;
                    if rec.err {
                        batch_err = true;
                        tainted.insert(key);
                    } else if rec.ok {
                        let e = cur.entry(key).or_insert(None);
                        if rec.update_path || e.is_none() {
                            *e = Some(id);
                        } // else: a buffered New for a key that is charged when applied is refused by design
                        batch.insert(key, *e);
                    } else {
                        batch.insert(key, *cur.entry(key).or_insert(None));
                    }
                }
            }
            OP_GET | OP_GET_MUT | OP_GET_MUT_WRITE => {
                let write = if op == OP_GET_MUT_WRITE { Some(ids.fetch_add(1, Ordering::SeqCst)) } else { None };
                rec.id = write.unwrap_or(0);
                rec.call = seq::next();
                // one look-up in eight keeps its guard (ValueRef / ValueRefMut: the shard lock) alive for a
                // while, so that clear(), cleanup, eviction and other clients meet a held shard lock
                let got = if op != OP_GET_MUT_WRITE && h.mode == "mixed" && rng.chance(1, 8) {
                    let spin_us = rng.range(20, 400);
                    d.get_hold(key, op == OP_GET_MUT, &move || {
                        let t0 = std::time::Instant::now();
                        while (t0.elapsed().as_micros() as u64) < spin_us {
                            std::hint::spin_loop();
                        }
                    })
                } else if op == OP_GET {
                    d.get(key)
                } else {
                    d.get_mut(key, write)
                };
                rec.ret = seq::next();
                if let Some(s) = got {
                    rec.hit = true;
                    rec.seen_id = s.id;
                    rec.seen_key = s.key;
                    if barrier && write.is_some() {
                        *batch_n.entry(key).or_insert(0) += 1;
                        cur.insert(key, write);
                        batch.insert(key, write);
                    }
                }
            }
            OP_GET_TTL => {
                rec.call = seq::next();
                rec.hit = d.get_ttl(key).is_some();
                rec.ret = seq::next();
            }
            OP_REMOVE => {
                rec.call = seq::next();
                let r = d.try_remove(key);
                rec.ret = seq::next();
                rec.ok = r.is_ok();
                rec.err = r.is_err();
                if barrier {
                    *batch_n.entry(key).or_insert(0) += 1;
                    if rec.err {
                        batch_err = true;
                        tainted.insert(key);
                    }
                    cur.insert(key, None);
                    batch.insert(key, None);
                }
            }
            OP_CLEAR => {
                clears.0.fetch_add(1, Ordering::SeqCst);
                rec.call = seq::next();
                let r = d.clear();
                rec.ret = seq::next();
                clears.1.fetch_add(1, Ordering::SeqCst);
                rec.ok = r.is_ok();
                rec.err = r.is_err();
            }
            OP_MAXCOST => {
                rec.cost = *rng.pick(&[h.cfg.max_cost, h.cfg.max_cost / 2, h.cfg.max_cost * 2, 1, -5]);
                rec.call = seq::next();
                d.update_max_cost(rec.cost);
                rec.ret = seq::next();
                rec.ok = true;
            }
            _ => {
                // wait(): in barrier mode followed by the barrier check
                rec.op = OP_WAIT;
                rec.call = seq::next();
                let r = d.wait();
                rec.ret = seq::next();
                rec.ok = r.is_ok();
                rec.err = r.is_err();
                if barrier && rec.ok {
                    let snap = d.snapshot();
                    let mut got: HashMap<u64, Option<u64>> = HashMap::new();
                    for k in batch.keys() {
                        let mut g = OpRec { tid, op: OP_GET, key: *k, ..Default::default() };
                        g.call = seq::next();
                        let s = d.get(*k);
                        g.ret = seq::next();
                        if let Some(s) = s {
                            g.hit = true;
                            g.seen_id = s.id;
                            g.seen_key = s.key;
                        }
                        got.insert(*k, s.map(|s| s.id));
                        extra.push(g);
                    }
                    let clear_now = (clears.0.load(Ordering::SeqCst), clears.1.load(Ordering::SeqCst));
                    let clear_seen = clear_now.0 != batch_clear_started.0 || clear_now.0 != clear_now.1 || batch_clear_started.0 != batch_clear_started.1;
                    if batch_err || clear_seen {
                        skipped += 1;
                        for k in batch.keys().chain(cur.keys()) {
                            unknown.insert(*k);
                        }
                    } else if batch.keys().any(|k| unknown.contains(k)) {
                        skipped += 1;
                        for (k, _) in batch.iter() {
                            cur.insert(*k, got[k]);
                            unknown.remove(k);
                        }
                    } else {
                        checks += 1;
                        let charged: HashSet<u64> = snap.costs.iter().map(|e| e.0).collect();
                        for (k, want) in batch.iter() {
                            if tainted.contains(k) {
                                continue;
                            }
                            if batch_n.get(k).copied().unwrap_or(0) != 1 {
                                // several writes to one key between two barriers: updates apply at once,
                                // queued removes and first-time inserts later, so only agreement of
                                // store and policy is decided; the thread re-synchronises from what it sees
                                multi += 1;
                                if got[k].is_some() != charged.contains(k) {
                                    bad.push((*k, seq::now(), format!("t{tid}: after wait() returned Ok, key {k} is resident={} but charged={}", got[k].is_some(), charged.contains(k))));
                                }
                                cur.insert(*k, got[k]);
                                continue;
                            }
                            single += 1;
                            match want {
                                Some(id) => {
                                    if got[k] != Some(*id) || !charged.contains(k) {
                                        bad.push((*k, seq::now(), format!("t{tid}: after wait() returned Ok, key {k} should hold #{id:x} (the only write to it since the previous barrier) but get() = {:?}, charged = {}", got[k].map(|x| format!("#{x:x}")), charged.contains(k))));
                                    }
                                }
                                None => {
                                    if got[k].is_some() || charged.contains(k) {
                                        bad.push((*k, seq::now(), format!("t{tid}: after wait() returned Ok, removed key {k} is still present (get() = {:?}, charged = {})", got[k].map(|x| format!("#{x:x}")), charged.contains(k))));
                                    }
                                }
                            }
                        }
                    }
                    batch.clear();
                    batch_n.clear();
                    batch_err = false;
                    // the next batch starts at the sample the verdict was based on: a clear() that ran after
                    // that sample belongs to the next batch
                    batch_clear_started = clear_now;
                } else if barrier {
                    // wait failed (full buffer): the batch simply continues
                }
            }
        }
        op_done();
        recs.push(rec);
        recs.append(&mut extra);
        if h.cfg.buffer_size <= 8 && rng.chance(1, 4) {
            std::thread::yield_now();
        }
    }
    (recs, checks * 1_000_000 + single.min(999_999), skipped * 1_000_000 + multi.min(999_999), bad)
}

fn wait_ok(d: &dyn Drv) -> Result<(), String> {
    crate::driver::wait_retry(d, Duration::from_secs(60))
}

/// Reset the process-global hooks, build the cache under test and start recording.
pub fn begin(flavor: Flavor, h: &HCfg) -> Arc<dyn Drv> {
    stretto::verif::reset();
    val::log_enable(false);
    let _ = val::take_log();
    val::VLD_MODE.store(h.vld_mode, Ordering::SeqCst);
    clock::set(h.start_ns);
    crate::driver::seeded::set_seed(h.seed);
    observe::enable(true);
    val::log_enable(true);
    sched::set_role(100);
    phase("build");
    let d = build(flavor, &h.cfg).expect("build cache");
    sched::record(true);
    d
}

pub fn run_history(flavor: Flavor, h: &HCfg) -> Hist {
    let d = begin(flavor, h);
    if let Some((pm, us)) = h.delays {
        sched::arm_delays(h.seed | 1, pm, us);
    }
    let ids = Arc::new(AtomicU64::new((h.seed << 20) | 1));
    let clears = Arc::new((AtomicU64::new(0), AtomicU64::new(0), AtomicU64::new(0)));
    let stop = Arc::new(AtomicBool::new(false));
    let ticks = Arc::new(AtomicU64::new(0));
    phase("ops");
    let tk = if h.timekeeper {
        let (stop, ticks, seed) = (stop.clone(), ticks.clone(), h.seed);
        Some(std::thread::Builder::new().name("timekeeper".into()).spawn(move || {
            sched::set_role(99);
            let mut r = Rng::new(seed ^ 0x7157);
            let mut n = 0u64;
            while !stop.load(Ordering::SeqCst) {
                clock::advance(Duration::from_millis(r.range(20, 260)));
                n += 1;
                // no more than 64 unhandled ticks at a time: on executors that only run while a client
                // drives them the backlog would otherwise grow with the length of the history
                if n % 2 == 0 && ticks.load(Ordering::SeqCst) < counters::get(&counters::TICKS_DONE) + 64 && ticker::tick() {
                    ticks.fetch_add(1, Ordering::SeqCst);
                }
                std::thread::sleep(Duration::from_micros(r.range(50, 400)));
            }
        }).unwrap())
    } else {
        None
    };
    let mut hs = Vec::new();
    for t in 0..h.threads {
        let (d2, h2, ids2, cl2) = (d.clone_handle(), h.clone(), ids.clone(), clears.clone());
        hs.push(std::thread::Builder::new().name(format!("client{t}")).spawn(move || client(d2, h2, t + 1, ids2, cl2)).unwrap());
    }
    phase("join-clients");
    let mut ops: Vec<OpRec> = Vec::new();
    let (mut bchecks, mut bskipped, mut bbad) = (0u64, 0u64, Vec::new());
    let (mut bsingle, mut bmulti) = (0u64, 0u64);
    for hnd in hs {
        match hnd.join() {
            Ok((r, c, s, b)) => {
                ops.extend(r);
                bchecks += c / 1_000_000;
                bskipped += s / 1_000_000;
                bsingle += c % 1_000_000;
                bmulti += s % 1_000_000;
                bbad.extend(b);
            }
            Err(_) => {}
        }
    }
    phase("stop-helpers");
    stop.store(true, Ordering::SeqCst);
    if let Some(t) = tk {
        let _ = t.join();
    }
    sched::arm_delays(1, 0, 0);
    finish(flavor, h, d, ops, ticks.load(Ordering::SeqCst), (bchecks, bskipped, bsingle, bmulti, bbad))
}

/// Quiescence protocol, final observations, close, collection of the logs.
pub fn finish(flavor: Flavor, h: &HCfg, d: Arc<dyn Drv>, ops: Vec<OpRec>, ticks_sent_so_far: u64, barrier: (u64, u64, u64, u64, Vec<(u64, u64, String)>)) -> Hist {
    let (bchecks, bskipped, bsingle, bmulti, bbad) = barrier;
    let buffer_cap = d.buffer().1;
    // ---- quiescence protocol: drain buffer, advance, tick, tick handled, drain again
    phase("quiesce");
    let mut qerr = None;
    if let Err(e) = wait_ok(d.as_ref()) {
        qerr = Some(e);
    }
    // far enough for every TTL of the history (at most 3 s) to have elapsed by more than one bucket width
    // plus one cleanup interval (at most 2 s) when the last tick is fed
    clock::advance(Duration::from_secs(8));
    let mut final_tick_ns = clock::now_ns();
    let mut sent = ticks_sent_so_far;
    if ticker::tick() {
        sent += 1;
    } else {
        final_tick_ns = 0; // no tick could be fed: the bounded-delay clause is not decided
    }
    if !d.drive_until(&|| counters::get(&counters::TICKS_DONE) >= sent, Duration::from_secs(120)) {
        qerr = Some(format!("ticks handled {} of {sent} after 120 s", counters::get(&counters::TICKS_DONE)));
    }
    if let Err(e) = wait_ok(d.as_ref()) {
        qerr = Some(e);
    }
    let _ = d.drive_until(&|| counters::get(&counters::POLICY_KEYS_APPLIED) >= counters::get(&counters::PUSH_KEYS_KEPT), Duration::from_secs(60));
    phase("check");
    // nothing may be in flight while the snapshot is taken (the counter of the last handled item
    // may tick just after wait() returned, hence the retries)
    let mut snap = d.snapshot();
    let mut stable = false;
    for _ in 0..50 {
        let c1 = counters::snapshot();
        snap = d.snapshot();
        let c2 = counters::snapshot();
        if c1 == c2 {
            stable = true;
            break;
        }
        std::thread::sleep(Duration::from_millis(2));
    }
    if !stable {
        qerr = Some("hook counters kept moving across the quiescent snapshot".into());
    }
    let metrics_before_final = d.metrics();
    let _ = metrics_before_final;
    let mut final_gets = Vec::new();
    let key_list: Vec<u64> = if h.mode == "pairs" {
        let mut ks: Vec<u64> = ops.iter().map(|o| o.key).collect();
        ks.sort();
        ks.dedup();
        ks
    } else if h.mode == "barrier" { (1..=h.threads as u64).flat_map(|t| (0..h.keys).map(move |k| t * 1000 + k)).collect() } else { (0..h.keys).collect() };
    for k in key_list {
        let mut rec = OpRec { tid: 100, op: OP_GET, key: k, ..Default::default() };
        rec.call = seq::next();
        if let Some(s) = d.get(k) {
            rec.hit = true;
            rec.seen_id = s.id;
            rec.seen_key = s.key;
        }
        rec.ret = seq::next();
        final_gets.push(rec);
    }
    let _ = d.drive_until(&|| counters::get(&counters::POLICY_KEYS_APPLIED) >= counters::get(&counters::PUSH_KEYS_KEPT), Duration::from_secs(60));
    let metrics = d.metrics();
    let end_seq = seq::next();
    let counters_end = counters::snapshot();
    let arrivals = sched::take_arrivals();
    phase("close");
    let close_err = d.close().err();
    phase("drop");
    drop(d);
    let t0 = std::time::Instant::now();
    loop {
        let c = counters::snapshot();
        if c.CACHE_WORKERS_EXITED >= c.CACHE_WORKERS_STARTED && c.POLICY_WORKERS_EXITED >= c.POLICY_WORKERS_STARTED {
            break;
        }
        if t0.elapsed() > Duration::from_secs(30) {
            break;
        }
        if let Flavor::Async(e) = flavor {
            crate::driver::block_on(e, crate::driver::YieldNow(false));
        }
        std::thread::yield_now();
    }
    let events = val::take_log();
    val::log_enable(false);
    observe::enable(false);
    let policy = observe::take();
    // leak check: every value ever created has been dropped once the cache is gone
    let dropped: HashSet<u64> = events.iter().filter_map(|e| if let EvKind::Drop { id } = e.kind { Some(id) } else { None }).collect();
    let mutated_away: HashSet<u64> = events.iter().filter_map(|e| if let EvKind::Mutate { old, .. } = e.kind { Some(old) } else { None }).collect();
    let mut leaked = Vec::new();
    for o in ops.iter() {
        if (o.op == OP_INSERT || o.op == OP_IF_PRESENT) && !dropped.contains(&o.id) && !mutated_away.contains(&o.id) {
            leaked.push(o.id);
        }
    }
    phase("idle");
    Hist {
        h: h.clone(),
        flavor,
        ops,
        events,
        policy,
        snap,
        final_gets,
        metrics,
        counters: counters_end,
        ticks_sent: sent,
        arrivals,
        end_seq,
        close_err,
        quiesce_err: qerr,
        barrier_checks: bchecks,
        barrier_skipped: bskipped,
        barrier_single_key_verdicts: bsingle,
        barrier_multi_write_keys: bmulti,
        barrier_violations: bbad,
        leaked,
        buffer_cap,
        final_tick_ns,
    }
}

// ---------------------------------------------------------------------------------------------
// checkers
// ---------------------------------------------------------------------------------------------

fn key_timeline(hist: &Hist, key: u64, upto: u64) -> Vec<String> {
    let mut evs: Vec<(u64, String)> = Vec::new();
    for o in hist.ops.iter().chain(hist.final_gets.iter()) {
        if (o.key == key || o.op == OP_CLEAR || o.op == OP_WAIT) && o.call <= upto {
            evs.push((o.call, o.short()));
        }
    }
    for e in hist.events.iter() {
        if let EvKind::Cb { kind, id, key: k, .. } = &e.kind {
            if *k == key && e.seq <= upto {
                evs.push((e.seq, format!("[{}] t{} callback {} #{id:x}", e.seq, e.tid, ["on_exit", "on_evict", "on_reject"][*kind as usize])));
            }
        }
    }
    evs.sort();
    let n = evs.len();
    evs.into_iter().skip(n.saturating_sub(80)).map(|e| e.1).collect()
}

fn describe(hist: &Hist) -> Value {
    json!({"flavor": hist.flavor.name(), "mode": hist.h.mode, "threads": hist.h.threads, "keys": hist.h.keys, "ops_per_thread": hist.h.ops, "config": format!("{:?}", hist.h.cfg),
           "delays": format!("{:?}", hist.h.delays), "timekeeper": hist.h.timekeeper, "seed": hist.h.seed, "validator": hist.h.vld_mode})
}

pub fn check_history(hist: &Hist, rep: &mut Report) {
    let d = describe(hist);
    let ops = &hist.ops;
    let any_err = ops.iter().any(|o| o.err);
    let clears: Vec<(u64, u64)> = ops.iter().filter(|o| o.op == OP_CLEAR).map(|o| (o.call, o.ret)).collect();
    let has_clear = !clears.is_empty();
    rep.add("ho_ops", ops.len() as u64);
    for o in ops.iter() {
        rep.count(&format!("ho_op_{}", OP_NAMES[o.op as usize]));
    }
    rep.add("ho_callbacks", hist.events.iter().filter(|e| matches!(e.kind, EvKind::Cb { .. })).count() as u64);
    rep.add("ho_evictions_and_expiries", hist.events.iter().filter(|e| matches!(e.kind, EvKind::Cb { kind: CB_EVICT, .. })).count() as u64);
    rep.add("ho_rejections", hist.events.iter().filter(|e| matches!(e.kind, EvKind::Cb { kind: CB_REJECT, .. })).count() as u64);
    rep.add("ho_ticks", hist.ticks_sent);
    rep.add("ho_yield_point_arrivals", hist.arrivals.len() as u64);
    rep.fingerprints.insert(hash_of(&hist.arrivals.iter().take(4000).collect::<Vec<_>>()));
    if let Some(e) = &hist.quiesce_err {
        rep.inconclusive(format!("quiescence not reached: {e}"));
        return;
    }

    // ---------------------------------------------------------------- C05: reclaimed within the bound, at the quiescent end
    // The clients have been joined, the buffer drained, the clock moved 8 s on and one more tick handled:
    // an entry whose deadline lies more than one bucket width plus one cleanup interval before that tick
    // must have been reclaimed by it, however late the processor filed it (entries are told apart by index:
    // collision-free keys only).
    if !hist.h.cfg.collide && hist.close_err.is_none() && hist.final_tick_ns != 0 {
        let interval = hist.h.cfg.cleanup.map_or(2_000_000_000u64, |c| c.as_nanos() as u64);
        rep.count("ho_c05_final_sweeps_checked");
        for e in hist.snap.store.iter() {
            if e.ttl_ns != 0 && e.created_ns.saturating_add(e.ttl_ns).saturating_add(1_000_000_000).saturating_add(interval) <= hist.final_tick_ns {
                rep.violate("C05", "cleanup/not-reclaimed-in-bound", format!("entry (index {:#x}, value #{:x}) inserted at {} ns with TTL {} ns is still resident after the tick fed at {} ns (deadline + bucket width + cleanup interval {} ns passed, clients joined, buffer drained)", e.index, e.tag, e.created_ns, e.ttl_ns, hist.final_tick_ns, interval), json!({"history": d}));
            }
        }
    }

    // ---------------------------------------------------------------- C05 / C04 / C03: never swept early
    // As long as every key inserted so far, at its dearest, still fits (and max_cost was never lowered)
    // the processor has had no reason to evict for room: outside clear()/close() calls (which hand
    // buffered, never admitted values to on_evict) a value reaches on_evict only through the TTL cleanup,
    // hence only once its deadline (at least: virtual time when its insert began + ttl) has passed, and
    // never without a TTL. "So far" = inserts whose call began before the callback.
    if hist.h.cfg.ignore_internal && !ops.iter().any(|o| o.op == OP_MAXCOST) && hist.close_err.is_none() {
        let mut inserts: Vec<&OpRec> = ops.iter().filter(|o| matches!(o.op, OP_INSERT | OP_IF_PRESENT)).collect();
        inserts.sort_by_key(|o| o.call);
        let writers: HashMap<u64, &OpRec> = inserts.iter().filter(|o| o.id != 0).map(|o| (o.id, *o)).collect();
        let mutated: HashSet<u64> = hist.events.iter().filter_map(|e| if let EvKind::Mutate { new, .. } = e.kind { Some(new) } else { None }).collect();
        let mut evs: Vec<&Ev> = hist.events.iter().filter(|e| matches!(e.kind, EvKind::Cb { kind: CB_EVICT, .. })).collect();
        evs.sort_by_key(|e| e.seq);
        let mut dearest: HashMap<u64, i64> = HashMap::new();
        let mut total: i128 = 0;
        let mut next = 0usize;
        for e in evs {
            while next < inserts.len() && inserts[next].call < e.seq {
                let o = inserts[next];
                next += 1;
                if !o.ok {
                    continue; // refused or dropped: it created nothing
                }
                let eff = if o.cost == 0 { o.aux } else { o.cost };
                let d0 = dearest.entry(o.key).or_insert(0);
                if eff > *d0 {
                    total += (eff - *d0) as i128;
                    *d0 = eff;
                }
            }
            if total > hist.h.cfg.max_cost as i128 {
                break; // from here on evictions for room are possible
            }
            if let EvKind::Cb { id, key, .. } = e.kind {
                if e.seq >= hist.end_seq || clears.iter().any(|(c, r)| e.seq > *c && e.seq < *r) || mutated.contains(&id) {
                    continue;
                }
                let Some(w) = writers.get(&id) else { continue };
                rep.count("ho_c05_evictions_below_capacity_checked");
                let wit = json!({"history": d, "evicted_at_seq": e.seq, "writer": w.short(), "dearest_entries_so_far": total.to_string(), "max_cost": hist.h.cfg.max_cost});
                if w.ttl_ns == 0 {
                    rep.violate("C05", "cleanup/removed-unexpired", format!("value #{id:x} (key {key}) was written by {} without TTL and handed to on_evict at [{}] although the cache had never run short of room (the dearest entries inserted so far cost {total} <= max_cost {})", w.short(), e.seq, hist.h.cfg.max_cost), wit.clone());
                    rep.violate("C04", "cleanup/removed-unexpired", format!("value #{id:x} (key {key}) without TTL swept below capacity"), wit.clone());
                    if w.op == OP_IF_PRESENT && w.ok {
                        rep.violate("C09", "if-present/update-swept", format!("{} returned true (an update of value and cost, without TTL); its value was then handed to on_evict by the TTL cleanup", w.short()), wit.clone());
                    }
                    rep.violate("C03", "cleanup/removed-unexpired", format!("value #{id:x} (key {key}) was written without TTL (by {}) and became invisible through the TTL cleanup", w.short()), wit);
                } else if e.vnow < w.vcall.saturating_add(w.ttl_ns) && w.vcall != 0 {
                    rep.violate("C05", "cleanup/removed-unexpired", format!("value #{id:x} (key {key}) written by {} at virtual time >= {} with ttl {} ns was handed to on_evict at virtual time {} (seq {}), before its deadline, although the cache had never run short of room", w.short(), w.vcall, w.ttl_ns, e.vnow, e.seq), wit.clone());
                    rep.violate("C04", "cleanup/removed-unexpired", format!("value #{id:x} (key {key}) swept before its deadline below capacity"), wit.clone());
                    rep.violate("C03", "cleanup/removed-unexpired", format!("value #{id:x} (key {key}): the deadline of the insert that wrote it ({}, ttl {} ns, begun at virtual time {}) did not apply: swept at virtual time {}", w.short(), w.ttl_ns, w.vcall, e.vnow), wit);
                }
            }
        }
    }

    // ---------------------------------------------------------------- C06
    let store: HashMap<u64, u64> = hist.snap.store.iter().map(|e| (e.index, e.tag)).collect();
    let policy: HashMap<u64, i64> = hist.snap.costs.iter().cloned().collect();
    if any_err || hist.counters.HANDLER_ERRORS > 0 {
        rep.count("ho_histories_with_reported_errors_excluded_from_c06");
    } else {
        rep.count("ho_c06_evaluations");
        let mut sk: Vec<u64> = store.keys().cloned().collect();
        let mut pk: Vec<u64> = policy.keys().cloned().collect();
        sk.sort();
        pk.sort();
        if sk != pk {
            let only_store: Vec<&u64> = sk.iter().filter(|k| !policy.contains_key(k)).collect();
            let only_policy: Vec<&u64> = pk.iter().filter(|k| !store.contains_key(k)).collect();
            let sig = if has_clear { "quiescent/store-policy-differ/with-concurrent-clear" } else { "quiescent/store-policy-differ" };
            let k0 = **only_store.first().or(only_policy.first()).unwrap();
            rep.violate("C06", sig, format!("at quiescence: resident but not charged {only_store:?}, charged but not resident {only_policy:?}"), json!({"history": d, "timeline_of_key": key_timeline(hist, k0, u64::MAX)}));
        }
        if hist.snap.len != store.len() {
            rep.violate("C06", "len/disagrees-with-store", format!("len() = {} with {} resident entries", hist.snap.len, store.len()), json!({"history": d}));
        }
    }
    let sum: i128 = policy.values().map(|c| *c as i128).sum();
    if sum != hist.snap.used as i128 {
        rep.violate("C01", "used/not-sum-of-charges", format!("used {} != sum of charges {sum} at quiescence", hist.snap.used), json!({"history": d}));
    }

    // ---------------------------------------------------------------- C01: cost of what is really resident
    // An entry that is resident but not charged at all still occupies the cache: it counts with the cost
    // its insert gave (internal cost is ignored in hostile histories). Entries the policy does charge
    // count with that charge: when writers of one key overlap, the charge may legitimately be that of
    // another write than the resident value's (store swap and queued cost update are not atomic; C16's
    // statement exempts it), and in-place updates may lift `used` itself above max_cost.
    if !ops.iter().any(|o| o.op == OP_MAXCOST) && hist.h.vld_mode == 0 {
        let cost_of: HashMap<u64, i64> = ops.iter().filter(|o| matches!(o.op, OP_INSERT | OP_IF_PRESENT)).map(|o| (o.id, o.cost)).collect();
        let uncharged: Vec<(u64, i64)> = hist.snap.store.iter().filter(|e| !policy.contains_key(&e.index)).map(|e| (e.index, cost_of.get(&e.tag).copied().unwrap_or(0))).collect();
        let uncharged_cost: i64 = uncharged.iter().map(|e| e.1).sum();
        rep.count("ho_c01_resident_cost_checks");
        if uncharged_cost > 0 && hist.snap.used as i128 + uncharged_cost as i128 > hist.h.cfg.max_cost as i128 {
            rep.violate("C01", "resident-cost/over-max", format!("at quiescence the policy charges {} (max_cost {}), and the entries {:?} (index, cost) are resident without being charged: what is resident costs {} in total", hist.snap.used, hist.h.cfg.max_cost, uncharged, hist.snap.used as i128 + uncharged_cost as i128),
                json!({"history": d, "resident_uncharged": uncharged, "policy": hist.snap.costs, "used": hist.snap.used}));
        }
    }

    // ---------------------------------------------------------------- C01: policy log
    let before = rep.violations_for("C01");
    let sh = check_policy_log(hist.h.cfg.max_cost, &hist.policy, rep, &json!({"history": d}));
    let _ = (before, sh);

    // ---------------------------------------------------------------- indexes for C02 / C08
    let mut write_of: HashMap<u64, &OpRec> = HashMap::new(); // id -> the op that wrote it
    for o in ops.iter() {
        if matches!(o.op, OP_INSERT | OP_IF_PRESENT | OP_GET_MUT_WRITE) && o.id != 0 {
            write_of.insert(o.id, o);
        }
    }
    let mut cb_of: HashMap<u64, Vec<&Ev>> = HashMap::new();
    let mut drop_at: HashMap<u64, u64> = HashMap::new();
    let mut mutated_away: HashMap<u64, u64> = HashMap::new();
    for e in hist.events.iter() {
        match &e.kind {
            EvKind::Cb { id, .. } => cb_of.entry(*id).or_default().push(e),
            EvKind::Drop { id } => {
                drop_at.insert(*id, e.seq);
            }
            EvKind::Mutate { old, .. } => {
                mutated_away.insert(*old, e.seq);
            }
            EvKind::CbNone => rep.violate("C08", "callback/none-value", "a callback received no value".into(), json!({"history": d})),
        }
    }
    let resident_ids: HashSet<u64> = store.values().cloned().collect();

    // ---------------------------------------------------------------- C09: no replacement the validator refuses
    if hist.h.vld_mode != 0 {
        for o in ops.iter().filter(|o| matches!(o.op, OP_INSERT | OP_IF_PRESENT) && o.ok && o.update_path) {
            if let Some(prev) = write_of.get(&o.exited_id) {
                rep.count("ho_c09_replacements_checked_against_validator");
                if matches!(prev.op, OP_INSERT | OP_IF_PRESENT) && !crate::val::vld_decide(hist.h.vld_mode, prev.id, prev.aux, o.id, o.aux) {
                    rep.violate("C09", "veto/replacement-installed-against-validator", format!("{} replaced the value of {} although the update validator (mode {}) refuses that pair (previous weight {}, new weight {})", o.short(), prev.short(), hist.h.vld_mode, prev.aux, o.aux), json!({"history": d, "timeline_of_key": key_timeline(hist, o.key, o.ret + 2)}));
                }
            }
        }
    }

    // ---------------------------------------------------------------- C09: insert_if_present never creates an entry
    for o in ops.iter().filter(|o| o.op == OP_IF_PRESENT && !o.err) {
        rep.count("ho_c09_if_present_checked");
        if o.ok && !o.update_path {
            rep.violate("C09", "if-present/true-without-replacing", format!("{}: returned true although no resident value was replaced inside the call", o.short()), json!({"history": d, "timeline_of_key": key_timeline(hist, o.key, o.ret + 2)}));
        }
        if !o.ok && (resident_ids.contains(&o.id) || cb_of.contains_key(&o.id)) {
            rep.violate("C09", "if-present/false-but-value-entered", format!("{}: returned false, yet its value is resident or reached a callback", o.short()), json!({"history": d, "timeline_of_key": key_timeline(hist, o.key, u64::MAX)}));
        }
    }

    // ---------------------------------------------------------------- C08: conservation
    for o in ops.iter() {
        if !matches!(o.op, OP_INSERT | OP_IF_PRESENT) {
            continue;
        }
        let n_cb = cb_of.get(&o.id).map_or(0, |v| v.len());
        let resident = resident_ids.contains(&o.id);
        let mutated = mutated_away.contains_key(&o.id);
        if !(o.ok && !o.err) {
            // refused at the call: may be dropped silently, but never resident
            if resident {
                rep.violate("C08", "refused-insert-resident", format!("value #{:x} of an insert that returned false is resident", o.id), json!({"history": d, "timeline_of_key": key_timeline(hist, o.key, u64::MAX)}));
            }
            continue;
        }
        rep.count("ho_c08_values_accounted");
        let total = n_cb + resident as usize + mutated as usize;
        if total > 1 {
            let kinds: Vec<u8> = cb_of.get(&o.id).map(|v| v.iter().filter_map(|e| if let EvKind::Cb { kind, .. } = e.kind { Some(kind) } else { None }).collect()).unwrap_or_default();
            rep.violate("C08", "value/more-than-one-exit", format!("value #{:x} (key {}): {n_cb} callbacks {kinds:?}, resident at the end: {resident}", o.id, o.key), json!({"history": d, "timeline_of_key": key_timeline(hist, o.key, u64::MAX)}));
        }
        if total == 0 {
            // legal only when dropped by a clear()/close(): the drop lies within a clear() call, or at the final close
            let ds = drop_at.get(&o.id).copied();
            let by_clear = ds.map_or(false, |s| clears.iter().any(|(c, r)| s >= *c && s <= *r));
            let by_close = ds.map_or(true, |s| s > hist.end_seq);
            if !(by_clear || by_close) {
                let sig = if has_clear { "value/vanished-without-callback/with-concurrent-clear" } else { "value/vanished-without-callback" };
                rep.violate("C08", sig, format!("value #{:x} (key {}) accepted by insert, not resident at quiescence, no callback, dropped at {:?} outside any clear()/close()", o.id, o.key, ds), json!({"history": d, "timeline_of_key": key_timeline(hist, o.key, u64::MAX)}));
            }
        }
    }
    for (id, cbs) in cb_of.iter() {
        if cbs.len() > 1 && !write_of.contains_key(id) {
            rep.violate("C08", "value/more-than-one-exit", format!("value #{id:x}: {} callbacks", cbs.len()), json!({"history": d}));
        }
    }
    if !hist.leaked.is_empty() {
        rep.violate("C08", "value/leaked", format!("{} values were never dropped after the cache and its workers were gone, e.g. #{:x}", hist.leaked.len(), hist.leaked[0]), json!({"history": d}));
    }

    // ---------------------------------------------------------------- C02: look-ups
    // earliest instant at which an id was observably resident
    let mut seen_at: HashMap<u64, u64> = HashMap::new();
    for o in ops.iter() {
        if matches!(o.op, OP_GET | OP_GET_MUT | OP_GET_MUT_WRITE) && o.hit {
            let x = seen_at.entry(o.seen_id).or_insert(u64::MAX);
            *x = (*x).min(o.ret);
        }
        if matches!(o.op, OP_INSERT | OP_IF_PRESENT) && o.ok && o.update_path {
            let x = seen_at.entry(o.id).or_insert(u64::MAX);
            *x = (*x).min(o.ret);
        }
        if o.op == OP_GET_MUT_WRITE && o.hit {
            let x = seen_at.entry(o.id).or_insert(u64::MAX);
            *x = (*x).min(o.ret);
        }
    }
    let ok_waits: Vec<(u64, u64)> = ops.iter().filter(|o| o.op == OP_WAIT && o.ok).map(|o| (o.call, o.ret)).collect();
    let removes: Vec<&OpRec> = ops.iter().filter(|o| o.op == OP_REMOVE && o.ok).collect();
    let all_removes: Vec<&OpRec> = ops.iter().filter(|o| o.op == OP_REMOVE).collect();
    let mut updates_by_key: HashMap<u64, Vec<&OpRec>> = HashMap::new();
    for o in ops.iter() {
        if matches!(o.op, OP_INSERT | OP_IF_PRESENT) && o.ok && o.update_path {
            updates_by_key.entry(o.key).or_default().push(o);
        }
    }
    let final_val: HashMap<u64, u64> = hist.final_gets.iter().filter(|g| g.hit).map(|g| (g.key, g.seen_id)).collect();
    for o in ops.iter().chain(hist.final_gets.iter()) {
        if !matches!(o.op, OP_GET | OP_GET_MUT | OP_GET_MUT_WRITE) {
            continue;
        }
        rep.count("ho_c02_lookups_checked");
        if hist.h.cfg.collide {
            rep.count("ho_lookups_under_index_collision");
        }
        let tl = |upto: u64| json!({"history": d, "timeline_of_key": key_timeline(hist, o.key, upto)});
        if o.hit {
            // R1
            if o.seen_key != o.key {
                rep.violate("C02", "lookup/foreign-value", format!("{}: returned a value written under key {}", o.short(), o.seen_key), tl(o.ret));
                if hist.h.cfg.collide {
                    rep.violate("C18", "lookup/foreign-value", format!("{}: returned a value written under the colliding key {}", o.short(), o.seen_key), tl(o.ret));
                }
                continue;
            }
            // R2
            let Some(w) = write_of.get(&o.seen_id) else {
                rep.violate("C02", "lookup/unknown-value", format!("{}: returned #{:x}, which nobody wrote", o.short(), o.seen_id), tl(o.ret));
                continue;
            };
            if w.call > o.ret || (matches!(w.op, OP_INSERT | OP_IF_PRESENT) && w.ret < o.call && !w.ok) {
                rep.violate("C02", "lookup/value-of-failed-or-future-write", format!("{}: returned the value of {}", o.short(), w.short()), tl(o.ret));
            }
            // never a value already handed to a callback
            if let Some(cbs) = cb_of.get(&o.seen_id) {
                if cbs.iter().any(|c| c.seq < o.call) {
                    rep.violate("C08", "lookup/returned-dead-value", format!("{}: returned #{:x} after it had been handed to a callback", o.short(), o.seen_id), tl(o.ret));
                    rep.violate("C02", "lookup/returned-dead-value", format!("{}: returned #{:x} after it had been handed to a callback", o.short(), o.seen_id), tl(o.ret));
                }
            }
            // R3
            for x in removes.iter().filter(|x| x.key == o.key) {
                if w.ret < x.call {
                    rep.count("ho_c02_r3_candidates");
                    // (a) remove applied: a later wait() completed before the look-up began, no clear overlapping
                    if ok_waits.iter().any(|(wc, wr)| *wc > x.ret && *wr < o.call && !clears.iter().any(|(cc, cr)| *cc <= *wr && *cr >= x.call)) {
                        rep.violate("C02", "lookup/stale-after-applied-remove", format!("{}: value written by {} returned although {} and a later wait() had completed", o.short(), w.short(), x.short()), tl(o.ret));
                    }
                }
                // (a') removal of an observably resident entry is immediate
                if x.ret < o.call && seen_at.get(&o.seen_id).map_or(false, |t| *t < x.call) {
                    rep.count("ho_c02_r3_candidates");
                    rep.violate("C02", "lookup/stale-after-remove-of-resident", format!("{}: #{:x} was observably resident before {} and is still returned afterwards", o.short(), o.seen_id, x.short()), tl(o.ret));
                }
            }
            for (cc, cr) in clears.iter() {
                if w.ret < *cc && *cr < o.call {
                    rep.count("ho_c02_r3_candidates");
                    rep.violate("C02", "lookup/stale-after-clear", format!("{}: value written by {} returned although clear() [{cc}..{cr}] ran in between", o.short(), w.short()), tl(o.ret));
                    rep.violate("C11", "lookup/stale-after-clear", format!("{}: value written by {} survived clear() [{cc}..{cr}]", o.short(), w.short()), tl(o.ret));
                }
            }
        }
        // R4': an update that was applied inside its call is never rolled back: as long as its value has
        // not been handed to a callback (and no clear() intervened), no later look-up may return a
        // value that was written entirely before the update
        if o.hit {
            if let Some(wu) = write_of.get(&o.seen_id) {
                for w in updates_by_key.get(&o.key).map(|v| v.as_slice()).unwrap_or(&[]) {
                    if w.ret < o.call && wu.ret < w.call && w.id != o.seen_id {
                        rep.count("ho_c02_rollback_candidates");
                        // the value has left the store: handed to a callback, overwritten in place, or swapped
                        // out by a later update whose call had begun (its on_exit may lag behind the swap)
                        let gone = cb_of.get(&w.id).map_or(false, |c| c.iter().any(|e| e.seq < o.ret))
                            || mutated_away.get(&w.id).map_or(false, |s| *s < o.ret)
                            || updates_by_key.get(&o.key).map_or(false, |v| v.iter().any(|w2| w2.exited_id == w.id && w2.call < o.ret));
                        let cleared = clears.iter().any(|(_cc, cr)| *cr > w.call);
                        // any remove() call, also one that failed on the full buffer: it deletes from the
                        // store first, and its on_exit may lag behind the deletion
                        let removed = all_removes.iter().any(|x| x.key == o.key && x.ret > w.call && x.call < o.ret);
                        if !gone && !cleared && !removed {
                            rep.violate("C02", "update/rolled-back", format!("{}: returned a value written by {} although the later in-place update {} had been applied and its value never left the cache", o.short(), wu.short(), w.short()), tl(o.ret));
                        }
                    }
                }
            }
        }
        // R4: updates are immediate and never rolled back
        if o.tid != 100 {
            if let Some(fv) = final_val.get(&o.key) {
                if let Some(w) = write_of.get(fv) {
                    if w.update_path && w.ok && o.call > w.ret && o.ret < hist.end_seq {
                        rep.count("ho_c02_r4_checks");
                        if !(o.hit && o.seen_id == *fv) {
                            rep.violate("C02", "update/rolled-back-or-not-immediate", format!("{}: the update {} is still resident at the end, yet this later look-up did not return it", o.short(), w.short()), tl(o.ret));
                        }
                    }
                }
            }
        }
    }

    // ---------------------------------------------------------------- C10: barrier verdicts gathered by the clients
    rep.add("ho_c10_barrier_checks", hist.barrier_checks);
    rep.add("ho_c10_barriers_skipped_err_or_clear", hist.barrier_skipped);
    rep.add("ho_c10_exact_key_verdicts", hist.barrier_single_key_verdicts);
    rep.add("ho_c10_keys_with_several_writes_consistency_only", hist.barrier_multi_write_keys);
    for (bk, bseq, b) in hist.barrier_violations.iter() {
        let sig = if has_clear { "barrier/not-applied/with-concurrent-clear" } else { "barrier/not-applied" };
        rep.violate("C10", sig, b.clone(), json!({"history": d, "timeline_of_key": key_timeline(hist, *bk, *bseq + 3)}));
        if has_clear {
            rep.violate("C11", sig, b.clone(), json!({"history": d, "timeline_of_key": key_timeline(hist, *bk, *bseq + 3)}));
        }
    }
    // wait() may fail only with a full buffer (or a closing cache, which does not occur here)
    for o in ops.iter().filter(|o| o.op == OP_WAIT && o.err) {
        rep.count("ho_wait_errors");
        if hist.buffer_cap > 64 && hist.h.threads as usize * 2 < hist.buffer_cap / 8 {
            rep.violate("C10", "wait/err-without-full-buffer", format!("{}: wait() failed although the buffer ({} slots) cannot have been full", o.short(), hist.buffer_cap), json!({"history": d}));
        }
    }

    // ---------------------------------------------------------------- C17: metrics conservation at quiescence
    if let Some(m) = hist.metrics {
        let [hits, misses, kadd, _kupd, kev, cadd, cev, sdrop, _srej, gdrop, gkept] = m;
        rep.count("ho_c17_evaluations");
        let lookups: Vec<&OpRec> = ops.iter().chain(hist.final_gets.iter()).filter(|o| matches!(o.op, OP_GET | OP_GET_MUT | OP_GET_MUT_WRITE)).collect();
        let z_lo = clears.iter().map(|c| c.0).max().unwrap_or(0);
        let z_hi = clears.iter().map(|c| c.1).max().unwrap_or(0);
        let lo = lookups.iter().filter(|o| o.call > z_hi).count() as u64;
        let hi = lookups.iter().filter(|o| o.ret > z_lo).count() as u64;
        if hits + misses < lo || hits + misses > hi {
            rep.violate("C17", "metrics/hits-plus-misses", format!("hits {hits} + misses {misses} outside [{lo}, {hi}] look-ups made since the last clear"), json!({"history": d}));
        }
        if !any_err {
            if kadd.wrapping_sub(kev) != policy.len() as u64 {
                let sig = if has_clear { "metrics/keys-added-minus-evicted/with-concurrent-clear" } else { "metrics/keys-added-minus-evicted" };
                rep.violate("C17", sig, format!("keys_added {kadd} - keys_evicted {kev} != {} charged entries", policy.len()), json!({"history": d}));
            }
            if cadd.wrapping_sub(cev) != hist.snap.used as u64 {
                let sig = if has_clear { "metrics/cost-added-minus-evicted/with-concurrent-clear" } else { "metrics/cost-added-minus-evicted" };
                rep.violate("C17", sig, format!("cost_added {cadd} - cost_evicted {cev} != used {}", hist.snap.used), json!({"history": d}));
            }
        }
        let drops: Vec<&OpRec> = ops.iter().filter(|o| o.op == OP_INSERT && !o.ok && !o.err).collect();
        let dlo = drops.iter().filter(|o| o.call > z_hi).count() as u64;
        let dhi = drops.iter().filter(|o| o.ret > z_lo).count() as u64;
        if sdrop < dlo || sdrop > dhi {
            rep.violate("C17", "metrics/sets-dropped", format!("sets_dropped {sdrop} outside [{dlo}, {dhi}] inserts that returned false since the last clear"), json!({"history": d}));
        }
        rep.add("ho_sets_dropped_observed", sdrop);
        // C15: every flushed batch is accounted exactly once
        let pushes: Vec<(u64, usize, u8)> = hist.policy.iter().filter_map(|e| if let observe::Ev::Push { seq, keys, outcome } = e { Some((*seq, keys.len(), *outcome)) } else { None }).collect();
        // a batch is counted in the metrics inside the look-up that flushed it, its event is stamped a
        // little later: only batches stamped after every look-up that overlapped the last clear() has
        // returned are certainly counted after the counters were zeroed
        let t_after = lookups.iter().filter(|o| o.call <= z_hi).map(|o| o.ret).max().unwrap_or(0).max(z_hi);
        let plo: u64 = pushes.iter().filter(|p| p.0 > t_after).map(|p| p.1 as u64).sum();
        let phi: u64 = pushes.iter().map(|p| p.1 as u64).sum();
        rep.add("ho_batches_flushed", pushes.len() as u64);
        rep.add("ho_batches_dropped", pushes.iter().filter(|p| p.2 != 0).count() as u64);
        if !has_clear {
            if gkept + gdrop != phi {
                rep.violate("C15", "metrics/gets-kept-plus-dropped", format!("gets_kept {gkept} + gets_dropped {gdrop} != {phi} keys in flushed batches"), json!({"history": d}));
            }
            let kept: u64 = pushes.iter().filter(|p| p.2 == 0).map(|p| p.1 as u64).sum();
            if gkept != kept {
                rep.violate("C15", "metrics/gets-kept", format!("gets_kept {gkept} != {kept} keys in kept batches"), json!({"history": d}));
            }
        } else if gkept + gdrop < plo || gkept + gdrop > phi {
            rep.violate("C15", "metrics/gets-kept-plus-dropped", format!("gets_kept {gkept} + gets_dropped {gdrop} outside [{plo}, {phi}]"), json!({"history": d}));
        }
    }
    // C15: the flushed batches are the look-ups, cut every buffer_items keys: each look-up is recorded once
    {
        let capa = hist.h.cfg.buffer_items.max(1);
        let mut looked: HashMap<u64, u64> = HashMap::new();
        let mut total_lookups = 0u64;
        for o in ops.iter().chain(hist.final_gets.iter()).filter(|o| matches!(o.op, OP_GET | OP_GET_MUT | OP_GET_MUT_WRITE)) {
            *looked.entry(o.key).or_insert(0) += 1;
            total_lookups += 1;
        }
        let mut pushed: HashMap<u64, u64> = HashMap::new();
        let mut total_pushed = 0u64;
        for e in hist.policy.iter() {
            if let observe::Ev::Push { keys, .. } = e {
                if keys.len() != capa {
                    rep.violate("C15", "batch/size-not-buffer-items", format!("a flushed batch holds {} keys, buffer_items is {}", keys.len(), hist.h.cfg.buffer_items), json!({"history": d}));
                }
                for k in keys {
                    *pushed.entry(*k).or_insert(0) += 1;
                    total_pushed += 1;
                }
            }
        }
        rep.add("ho_c15_lookups_accounted", total_lookups);
        let want = total_lookups / capa as u64 * capa as u64;
        if total_pushed != want {
            rep.violate("C15", "batch/lookups-not-recorded-once", format!("{total_lookups} look-ups with buffer_items {} must flush {want} keys, {total_pushed} were flushed", hist.h.cfg.buffer_items), json!({"history": d}));
        }
        for (k, n) in pushed.iter() {
            if *n > looked.get(k).copied().unwrap_or(0) {
                rep.violate("C15", "batch/key-recorded-more-often-than-looked-up", format!("key {k} appears {n} times in flushed batches but was looked up {} times", looked.get(k).copied().unwrap_or(0)), json!({"history": d}));
                break;
            }
        }
    }
    // C15: applied == kept; drops only with a full queue (sync: 3 batches) — conservative bound
    {
        let mut kept = 0u64;
        let mut applied = 0u64;
        let mut applied_keys = 0u64;
        let mut kept_keys = 0u64;
        for e in hist.policy.iter() {
            match e {
                observe::Ev::Push { outcome, keys, .. } => {
                    if *outcome == 0 {
                        kept += 1;
                        kept_keys += keys.len() as u64;
                    } else if *outcome > 1 {
                        rep.violate("C15", "batch/refused-on-open-cache", format!("push outcome {outcome} on an open cache"), json!({"history": d}));
                    } else if hist.flavor.is_async() {
                        rep.violate("C15", "batch/dropped-without-full-queue", "a batch was dropped by the async policy, whose queue is unbounded".into(), json!({"history": d}));
                    }
                }
                observe::Ev::Applied { keys, .. } => {
                    applied += 1;
                    applied_keys += keys.len() as u64;
                }
                _ => {}
            }
        }
        rep.add("ho_batches_kept", kept);
        rep.add("ho_batches_applied", applied);
        // (the worker may record several kept batches in one go: the look-ups must all arrive, not batch by batch)
        if kept_keys != applied_keys {
            rep.violate("C15", "batch/kept-not-applied", format!("{kept} batches ({kept_keys} keys) kept, {applied} ({applied_keys}) applied by the policy worker at quiescence"), json!({"history": d}));
        }
    }
    if let Some(e) = &hist.close_err {
        rep.violate("C12", "close/error", format!("close() returned an error: {e}"), json!({"history": d}));
    }
}

// ---------------------------------------------------------------------------------------------
// generation and the engine loop
// ---------------------------------------------------------------------------------------------

pub fn gen_history(prop: &str, rng: &mut Rng, hno: u64) -> HCfg {
    let mode: &'static str = match prop {
        "C10" => "barrier",
        "C15" => "readers",
        "pairs" => "pairs",
        "hammer" => "hammer",
        _ => "mixed",
    };
    let threads = if mode == "pairs" || mode == "hammer" { *rng.pick(&[8u8, 12, 16, 16]) } else { *rng.pick(&[2u8, 3, 4, 4, 6, 8, 12, 16]) };
    let keys = match mode {
        "barrier" => rng.range(2, 8),
        "hammer" => rng.range(1, 3),
        _ => rng.range(4, 16),
    };
    let tight = mode != "barrier" && rng.chance(2, 3);
    let cost_max: i64 = 3;
    let max_cost = if mode == "barrier" {
        1_000_000
    } else if tight {
        rng.range(4, (keys * 2).max(5)) as i64
    } else {
        10_000
    };
    let clear_w = match prop {
        "C11" => 3,
        "C06" | "C08" | "C02" | "C10" | "C17" | "C01" => {
            if rng.chance(1, 2) {
                1
            } else {
                0
            }
        }
        _ => 0,
    };
    // op weights: insert, if_present, get, get_mut, get_mut+write, get_ttl, remove, wait, clear, max_cost
    let w: [u32; 10] = match mode {
        "barrier" => [40, 4, 4, 0, 0, 0, 18, 14, clear_w, 0],
        "readers" => [8, 0, 70, 10, 0, 2, 3, 3, 0, 0],
        // many threads writing very few keys, no delays: raw contention on one entry
        "hammer" => [60, 12, 10, 4, 0, 2, 4, 2, 0, 0],
        _ => [34, 5, 22, 4, if prop == "C08" { 0 } else { 3 }, 4, 12, 5, clear_w, if prop == "C01" { 3 } else { 0 }],
    };
    let buffer_size = if mode == "pairs" || mode == "hammer" { 32 * 1024 } else { *rng.pick(&[1usize, 2, 4, 16, 1024, 32 * 1024]) };
    let mut w = w;
    if mode == "mixed" && buffer_size <= 16 && rng.chance(1, 2) {
        // no client-side wait() calls: with a tiny buffer they mostly fail (full buffer), and a history
        // in which a call reported an error is outside C06's statement; these histories keep the full
        // buffer (removes and inserts racing it) without any reported error on the async flavours
        w[7] = 0;
    }
    HCfg {
        cfg: Cfg {
            num_counters: *rng.pick(&[100usize, 1000, 10_000]),
            max_cost: if mode == "pairs" || mode == "hammer" { 1 << 40 } else { max_cost },
            buffer_size,
            buffer_items: *rng.pick(&[0usize, 1, 2, 3, 64]),
            metrics: true,
            ignore_internal: true,
            cleanup: Some(Duration::from_millis(*rng.pick(&[100u64, 500, 1000, 2000]))),
            // a third of the C02 / C18 histories run under the colliding key builder (keys 2i and 2i+1 share an
            // index hash, distinct non-zero conflict hashes): buffered inserts and removes of colliding keys
            // race each other here, which the lockstep histories (quiescent after every step) cannot produce
            collide: mode == "mixed" && (prop == "C18" || (prop == "C02" && hno % 3 == 2)),
            collide_zero_even: false,
            manual_ticker: true,
        },
        mode,
        threads,
        keys,
        ops: if mode == "pairs" { rng.range(300, 500) as u32 } else { rng.range(100, 400) as u32 },
        delays: if mode == "hammer" || (mode == "pairs" && rng.chance(1, 2)) { None } else if rng.chance(3, 4) { Some((*rng.pick(&[50u32, 200, 500]), *rng.pick(&[20u32, 100, 400]))) } else { None },
        timekeeper: mode != "barrier" || rng.chance(1, 2),
        w,
        ttl_share: if mode == "barrier" { 0 } else { 3 },
        cost_max,
        start_ns: 1_700_000_000_000_000_000 + hno * 137_000_000,
        vld_mode: if mode == "hammer" { 2 } else if prop == "C09" && rng.chance(2, 3) { *rng.pick(&[2u8, 2, 3, 4]) } else if prop == "C08" && rng.chance(1, 3) { rng.range(1, 4) as u8 } else { 0 },
        seed: rng.next() >> 16,
    }
}

pub fn run(ctx: &Ctx, rng: Rng, rep: &mut Report) {
    let histories = ctx.n(ctx.quick_n.unwrap_or(60), ctx.thorough_n.unwrap_or(1200));
    let flavors = flavors_for(ctx, &[Flavor::Sync], &[Flavor::Sync]);
    let watchdog = Duration::from_secs(if ctx.thorough() { 300 } else { 180 });
    for hno in 0..histories {
        let mut hrng = rng.derive(hno);
        let h = gen_history(ctx.mode.as_deref().unwrap_or(&ctx.prop), &mut hrng, ctx.shard * 100_000 + hno);
        let flavor = flavors[(hno % flavors.len() as u64) as usize];
        let h2 = h.clone();
        let sup = supervised("hostile", watchdog, move || run_history(flavor, &h2));
        let ctxj = json!({"flavor": flavor.name(), "history": format!("{h:?}")});
        let mut stop = false;
        match sup {
            Sup::Done(hist) => {
                if h.cfg.collide {
                    // under index collisions only the value clauses (C02, C18) are decided: the policy is keyed
                    // by the index hash alone, so charges, metrics and callbacks of colliding keys interfere in
                    // ways the other statements do not speak about (DESIGN section 3, "not alarmed on")
                    let mut sub = Report::default();
                    check_history(&hist, &mut sub);
                    sub.violations.retain(|v| matches!(v.property.as_str(), "C02" | "C18"));
                    sub.violation_counts.retain(|k, _| k.starts_with("C02|") || k.starts_with("C18|"));
                    rep.merge(sub);
                    rep.count("ho_histories_colliding_keys");
                } else {
                    check_history(&hist, rep);
                }
                rep.count("ho_histories");
                rep.count(&format!("ho_histories_{}", flavor.name()));
                rep.states.insert(hash_of(&(hist.snap.store.iter().map(|e| (e.index, e.tag)).collect::<Vec<_>>(), hist.snap.used)));
                let nontrivial = hist.events.iter().any(|e| matches!(e.kind, EvKind::Cb { kind: CB_EVICT, .. } | EvKind::Cb { kind: CB_EXIT, .. }));
                rep.case(nontrivial, hash_of(&(h.seed, h.threads, h.keys, format!("{:?}", h.cfg))));
                if hno < 2 {
                    rep.sample(json!({"history": hno, "flavor": flavor.name(), "threads": h.threads, "keys": h.keys, "config": format!("{:?}", h.cfg), "delays": format!("{:?}", h.delays),
                        "first_operations": hist.ops.iter().take(12).map(|o| o.short()).collect::<Vec<_>>(),
                        "observed": {"callbacks": hist.events.iter().filter(|e| matches!(e.kind, EvKind::Cb{..})).count(), "ticks": hist.ticks_sent, "yield_point_arrivals": hist.arrivals.len(), "resident_at_end": hist.snap.store.len()}}));
                }
            }
            Sup::Panicked => rep.count("histories_ended_by_panic"),
            Sup::Hang(diag) => {
                for p in PROGRESS_PROPS.iter() {
                    rep.violate(p, "hang/no-thread-can-progress", format!("{}: a call into the cache never returned: {} (phase {})", flavor.name(), diag["kind"].as_str().unwrap_or("no thread can make progress"), diag["phase"]), json!({"history": ctxj, "diagnosis": diag}));
                }
                rep.count("hangs");
                stop = true;
            }
            Sup::Timeout(diag) => {
                rep.inconclusive(format!("watchdog fired without a definitive diagnosis: {diag}"));
                stop = true;
            }
        }
        fold_panics(rep, &["C20", &ctx.prop], &ctxj);
        if stop {
            rep.add("histories_not_run_after_hang", histories - hno - 1);
            break;
        }
    }
}
