//! C19 (i): the same scripted history on `Cache` and on `AsyncCache` (every executor), compared
//! observation by observation; the async traces are also judged by the model oracle.
use super::lockstep::{flavors_for, item_size, judge_sup, run_one, ALL_ASYNC, PROGRESS_PROPS};
use super::Ctx;
use crate::common::{fold_panics, hash_of, Report, Rng};
use crate::driver::{Exec, Flavor};
use crate::oracle::check_trace;
use crate::script::{generate, profile, Obs, Script, Trace};
use crate::supervise::Sup;
use crate::val::EvKind;
use serde_json::json;
use std::time::Duration;

fn events_key(o: &Obs) -> Vec<(u8, u64, i64)> {
    let mut v: Vec<(u8, u64, i64)> = o
        .events
        .iter()
        .filter_map(|e| match &e.kind {
            EvKind::Cb { kind, id, cost, .. } => Some((*kind, *id, *cost)),
            EvKind::CbNone => Some((9, 0, 0)),
            _ => None,
        })
        .collect();
    v.sort();
    v
}

fn compare(script: &Script, a: &Trace, b: &Trace, rep: &mut Report) -> u64 {
    let mut compared = 0;
    if a.obs.len() != b.obs.len() {
        rep.violate("C19", "trace/length", format!("{} produced {} observations, {} produced {}", a.flavor.name(), a.obs.len(), b.flavor.name(), b.obs.len()), script.describe(script.steps.len()));
        return 0;
    }
    for (x, y) in a.obs.iter().zip(b.obs.iter()) {
        compared += 1;
        let mut diffs: Vec<String> = Vec::new();
        if x.ret_bool != y.ret_bool || x.ret_err.is_some() != y.ret_err.is_some() {
            diffs.push(format!("return value {:?}/{:?} vs {:?}/{:?}", x.ret_bool, x.ret_err, y.ret_bool, y.ret_err));
        }
        if x.seen != y.seen {
            diffs.push(format!("look-up result {:?} vs {:?}", x.seen, y.seen));
        }
        if x.wait_err.is_some() != y.wait_err.is_some() {
            diffs.push(format!("wait() {:?} vs {:?}", x.wait_err, y.wait_err));
        }
        if x.probe.get != y.probe.get || x.probe.get_mut != y.probe.get_mut {
            diffs.push("look-ups over the key universe differ".into());
        }
        if x.probe.ttl != y.probe.ttl {
            diffs.push(format!("remaining TTLs {:?} vs {:?}", x.probe.ttl, y.probe.ttl));
        }
        if events_key(x) != events_key(y) {
            diffs.push(format!("callbacks {:?} vs {:?}", events_key(x), events_key(y)));
        }
        let snap = |o: &Obs| {
            let mut s: Vec<(u64, u64, u64, u64, u64)> = o.snap.store.iter().map(|e| (e.index, e.conflict, e.ttl_ns, e.created_ns, e.tag)).collect();
            s.sort();
            let mut c = o.snap.costs.clone();
            c.sort();
            (s, c, o.snap.used, o.snap.max_cost, o.snap.len)
        };
        if snap(x) != snap(y) {
            diffs.push(format!("resident entries / charges differ: used {} vs {}, len {} vs {}", x.snap.used, y.snap.used, x.snap.len, y.snap.len));
        }
        match (&x.metrics, &y.metrics) {
            (Some(m), Some(n)) => {
                // the synchronous policy queue is bounded (drops), the asynchronous one is not:
                // gets_kept / gets_dropped are compared as a sum
                if m[..9] != n[..9] || m[9] + m[10] != n[9] + n[10] {
                    diffs.push(format!("metrics {m:?} vs {n:?}"));
                }
            }
            (None, None) => {}
            _ => diffs.push("metrics present on one side only".into()),
        }
        if x.hist != y.hist {
            diffs.push(format!("life-expectancy histogram {:?} vs {:?}", x.hist, y.hist));
        }
        if !diffs.is_empty() {
            rep.violate(
                "C19",
                &format!("differs/{}", diffs[0].split(' ').next().unwrap_or("?")),
                format!("{} and {} disagree at step {} ({}){}: {}", a.flavor.name(), b.flavor.name(), x.step, script.steps[x.step].short(), if x.tick_at.is_some() { " [tick]" } else { "" }, diffs.join("; ")),
                json!({"script": script.describe(x.step), "tick_at": x.tick_at, "flavors": [a.flavor.name(), b.flavor.name()]}),
            );
            break;
        }
    }
    compared
}

pub fn run(ctx: &Ctx, rng: Rng, rep: &mut Report) {
    let prof = profile("C19");
    let histories = ctx.n(ctx.quick_n.unwrap_or(60), ctx.thorough_n.unwrap_or(1500));
    let asyncs = flavors_for(ctx, &[Flavor::Async(Exec::TokioMt), Flavor::Async(Exec::Seeded), Flavor::Async(Exec::ThreadPerTask), Flavor::Async(Exec::TokioCt), Flavor::Async(Exec::AsyncStd)], &ALL_ASYNC);
    let isz = item_size();
    let watchdog = Duration::from_secs(if ctx.thorough() { 300 } else { 180 });
    'outer: for h in 0..histories {
        let mut hrng = rng.derive(h);
        let script = generate(&prof, &mut hrng, ctx.shard * 1_000_000 + h, isz);
        let sup = run_one(Flavor::Sync, &script, watchdog);
        let stop = !matches!(sup, Sup::Done(_) | Sup::Panicked);
        let base = judge_sup(sup, &script, Flavor::Sync, &PROGRESS_PROPS, rep);
        fold_panics(rep, &["C20", "C19"], &script.describe(script.steps.len()));
        if stop {
            break;
        }
        let Some(base) = base else { continue };
        let _ = check_trace(&script, &base, rep);
        // in quick runs each history is compared with two of the executors, in thorough with all
        let pick: Vec<Flavor> = if ctx.thorough() { asyncs.clone() } else { vec![asyncs[(h % asyncs.len() as u64) as usize], asyncs[((h + 1) % asyncs.len() as u64) as usize]] };
        for fl in pick {
            let sup = run_one(fl, &script, watchdog);
            let stop = !matches!(sup, Sup::Done(_) | Sup::Panicked);
            let tr = judge_sup(sup, &script, fl, &["C19"], rep);
            fold_panics(rep, &["C20", "C19"], &script.describe(script.steps.len()));
            if let Some(tr) = tr {
                // the async flavour has to satisfy the model oracle on its own as well
                let mut local = Report::default();
                let _ = check_trace(&script, &tr, &mut local);
                for v in local.violations.iter() {
                    rep.violate("C19", &format!("async/{}/{}", v.property, v.signature), format!("{} violates {}: {}", fl.name(), v.property, v.message), v.witness.clone());
                }
                rep.merge(local);
                let n = compare(&script, &base, &tr, rep);
                rep.add("diff_observations_compared", n);
                rep.count(&format!("diff_pairs_sync_vs_{}", fl.name()));
                rep.add("diff_callbacks_compared", tr.obs.iter().map(|o| events_key(o).len() as u64).sum());
                rep.add("diff_ticks", tr.obs.iter().filter(|o| o.tick_at.is_some()).count() as u64);
                if fl == Flavor::Async(Exec::Seeded) {
                    rep.fingerprints.insert(crate::driver::seeded::ORDER_HASH.load(std::sync::atomic::Ordering::Relaxed));
                    rep.add("diff_seeded_executor_task_polls", crate::driver::seeded::POLLS.swap(0, std::sync::atomic::Ordering::Relaxed));
                }
            }
            if stop {
                break 'outer;
            }
        }
        rep.count("diff_histories");
        rep.case(true, hash_of(&format!("{:?}{:?}", script.steps, script.cfg)));
        if h < 2 {
            rep.sample(json!({"history": h, "script": script.describe(20), "compared_with": "sync vs async executors, observation by observation"}));
        }
    }
}
