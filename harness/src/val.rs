//! Unambiguous values, callbacks, coster, validator, key builder, and the global event log.
use parking_lot::Mutex;
use std::cell::Cell;
use std::sync::atomic::{AtomicBool, AtomicU64, AtomicU8, Ordering};
use stretto::verif::{sched, seq};
use stretto::{CacheCallback, Coster, Item, KeyBuilder, UpdateValidator};

/// Every inserted value carries a unique id and the key it was written under.
#[derive(Debug)]
pub struct Tracked {
    pub id: u64,
    pub key: u64,
    /// what the Coster says this value costs
    pub aux: i64,
    /// padding so that value sizes can differ (C16)
    pub pad: Vec<u8>,
}

impl Tracked {
    pub fn new(id: u64, key: u64) -> Self {
        Tracked { id, key, aux: 0, pad: Vec::new() }
    }
    pub fn with_aux(id: u64, key: u64, aux: i64) -> Self {
        Tracked { id, key, aux, pad: Vec::new() }
    }
}

impl Drop for Tracked {
    fn drop(&mut self) {
        log(EvKind::Drop { id: self.id });
    }
}

pub const CB_EXIT: u8 = 0;
pub const CB_EVICT: u8 = 1;
pub const CB_REJECT: u8 = 2;

#[derive(Clone, Debug)]
pub enum EvKind {
    /// callback entered (the value has left the cache's ownership)
    Cb { kind: u8, id: u64, key: u64, index: u64, conflict: u64, cost: i64 },
    /// on_exit(None)
    CbNone,
    Drop { id: u64 },
    /// in-place write through get_mut: the entry's id changed from old to new
    Mutate { key: u64, old: u64, new: u64 },
}

#[derive(Clone, Debug)]
pub struct Ev {
    pub seq: u64,
    /// role of the thread (0 = background worker)
    pub tid: u8,
    pub vnow: u64,
    pub kind: EvKind,
}

static LOG_ON: AtomicBool = AtomicBool::new(false);
static LOG: Mutex<Vec<Ev>> = Mutex::new(Vec::new());
pub static VLD_MODE: AtomicU8 = AtomicU8::new(0);
/// Added to every index hash the harness key builder produces (lockstep histories: so that the key
/// universe 0..n lands on different residues - metric stripes, shards, sketch rows - per history).
pub static INDEX_BASE: AtomicU64 = AtomicU64::new(0);
pub static VETOES: AtomicU64 = AtomicU64::new(0);

thread_local! {
    /// number of on_exit callbacks that ran on this thread *in client code*, and the id of the last one
    static TL_EXITS: Cell<(u64, u64)> = const { Cell::new((0, 0)) };
    /// > 0 while this thread is polling one of the cache's background tasks (executors that run
    /// them on the caller's thread: tokio current-thread, the seeded executor)
    static IN_BACKGROUND: Cell<u32> = const { Cell::new(0) };
}

pub fn background_enter() {
    IN_BACKGROUND.with(|c| c.set(c.get() + 1));
}
pub fn background_exit() {
    IN_BACKGROUND.with(|c| c.set(c.get().saturating_sub(1)));
}
pub fn in_background() -> bool {
    IN_BACKGROUND.with(|c| c.get() > 0)
}

pub fn tl_exits() -> (u64, u64) {
    TL_EXITS.with(|c| c.get())
}

pub fn log_enable(on: bool) {
    LOG_ON.store(on, Ordering::SeqCst);
}

#[inline]
pub fn log(kind: EvKind) {
    if !LOG_ON.load(Ordering::Relaxed) {
        return;
    }
    let mut g = LOG.lock();
    let seq = seq::next();
    g.push(Ev { seq, tid: if in_background() { 0 } else { sched::role() }, vnow: stretto::verif::clock::now_ns(), kind });
}

pub fn take_log() -> Vec<Ev> {
    std::mem::take(&mut *LOG.lock())
}

pub fn log_len() -> usize {
    LOG.lock().len()
}

/// Copy of the log from position `from` on.
pub fn log_since(from: usize) -> Vec<Ev> {
    let g = LOG.lock();
    g[from.min(g.len())..].to_vec()
}

#[derive(Clone, Copy, Default)]
pub struct Cb;

impl CacheCallback for Cb {
    type Value = Tracked;
    fn on_exit(&self, v: Option<Tracked>) {
        match v {
            Some(v) => {
                if !in_background() {
                    TL_EXITS.with(|c| {
                        let (n, _) = c.get();
                        c.set((n + 1, v.id));
                    });
                }
                log(EvKind::Cb { kind: CB_EXIT, id: v.id, key: v.key, index: 0, conflict: 0, cost: -1 });
            }
            None => log(EvKind::CbNone),
        }
    }
    fn on_evict(&self, it: Item<Tracked>) {
        match &it.val {
            Some(v) => log(EvKind::Cb { kind: CB_EVICT, id: v.id, key: v.key, index: it.index, conflict: it.conflict, cost: it.cost }),
            None => log(EvKind::CbNone),
        }
    }
    fn on_reject(&self, it: Item<Tracked>) {
        match &it.val {
            Some(v) => log(EvKind::Cb { kind: CB_REJECT, id: v.id, key: v.key, index: it.index, conflict: it.conflict, cost: it.cost }),
            None => log(EvKind::CbNone),
        }
    }
}

#[derive(Clone, Copy, Default)]
pub struct Cst;
impl Coster for Cst {
    type Value = Tracked;
    fn cost(&self, v: &Tracked) -> i64 {
        v.aux
    }
}

/// Update validator whose predicate is chosen per history through `VLD_MODE`.
#[derive(Clone, Copy, Default)]
pub struct Vld;
pub const VLD_ALWAYS: u8 = 0;
pub const VLD_NEVER: u8 = 1;
pub const VLD_ONLY_GREATER_AUX: u8 = 2;
pub const VLD_NEW_ID_EVEN: u8 = 3;
pub const VLD_PREV_AUX_EVEN: u8 = 4;

pub fn vld_decide(mode: u8, prev_id: u64, prev_aux: i64, new_id: u64, new_aux: i64) -> bool {
    let _ = prev_id;
    match mode {
        VLD_ALWAYS => true,
        VLD_NEVER => false,
        VLD_ONLY_GREATER_AUX => new_aux > prev_aux,
        VLD_NEW_ID_EVEN => new_id % 2 == 0,
        _ => prev_aux % 2 == 0,
    }
}

impl UpdateValidator for Vld {
    type Value = Tracked;
    fn should_update(&self, prev: &Tracked, curr: &Tracked) -> bool {
        let ok = vld_decide(VLD_MODE.load(Ordering::Relaxed), prev.id, prev.aux, curr.id, curr.aux);
        if !ok {
            VETOES.fetch_add(1, Ordering::Relaxed);
        }
        ok
    }
}

/// Key builder for u64 keys. Plain mode: (k, 0), like TransparentKeyBuilder. Collide mode: keys
/// 2i and 2i+1 share index 1000+i and carry distinct non-zero conflicts k+1.
#[derive(Clone, Copy, Default)]
pub struct Kb {
    pub collide: bool,
    pub zero_even: bool,
}

impl Kb {
    pub fn pair(&self, k: u64) -> (u64, u64) {
        let base = INDEX_BASE.load(Ordering::Relaxed);
        if self.collide {
            (base + 1000 + k / 2, if self.zero_even && k % 2 == 0 { 0 } else { k + 1 })
        } else {
            (base + k, 0)
        }
    }
}

fn raw_u64<Q: core::hash::Hash + ?Sized>(key: &Q) -> u64 {
    use std::hash::Hasher;
    let mut h = stretto::TransparentHasher::default();
    key.hash(&mut h);
    h.finish()
}

impl KeyBuilder for Kb {
    type Key = u64;
    fn hash_index<Q>(&self, key: &Q) -> u64
    where
        u64: core::borrow::Borrow<Q>,
        Q: core::hash::Hash + Eq + ?Sized,
    {
        self.pair(raw_u64(key)).0
    }
    fn hash_conflict<Q>(&self, key: &Q) -> u64
    where
        u64: core::borrow::Borrow<Q>,
        Q: core::hash::Hash + Eq + ?Sized,
    {
        // histories with an odd index base use a builder that overrides `build_key` only and leaves
        // `hash_conflict` at the trait's documented default ("or leave this method return 0"): every
        // path of the cache must go through build_key
        if INDEX_BASE.load(Ordering::Relaxed) % 2 == 1 {
            return 0;
        }
        self.pair(raw_u64(key)).1
    }
    fn build_key<Q>(&self, key: &Q) -> (u64, u64)
    where
        u64: core::borrow::Borrow<Q>,
        Q: core::hash::Hash + Eq + ?Sized,
    {
        self.pair(raw_u64(key))
    }
}
