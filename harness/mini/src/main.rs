//! Small scenarios for Miri: UB, out-of-bounds, data races, leaks, deadlock, threads alive at exit.
//! Parameters come through argv (never the environment): vmini <scenario> <seed>
use std::sync::Arc;
use std::time::Duration;
use stretto::verif::facade::{Bloom, CountMinRow, CountMinSketch, TinyLfu};
use stretto::{Cache, TransparentKeyBuilder};

fn rng(seed: &mut u64) -> u64 {
    *seed ^= *seed << 13;
    *seed ^= *seed >> 7;
    *seed ^= *seed << 17;
    *seed
}

/// C13 / C14: bit addressing (raw pointer arithmetic in the Bloom filter), nibble indexing
fn components(mut seed: u64) {
    for width in [1usize, 2, 3, 5, 8, 13, 31, 64, 70] {
        let mut t = TinyLfu::new(width).unwrap();
        let mut counts = std::collections::HashMap::new();
        let mut w = 0;
        for _ in 0..60 {
            let k = rng(&mut seed) % 7;
            t.increment(k);
            w += 1;
            if w >= width {
                w = 0;
                counts.clear();
            } else {
                *counts.entry(k).or_insert(0i64) += 1;
            }
            for (k, n) in counts.iter() {
                assert!(t.estimate(*k) >= (*n).min(16), "estimate below count");
                assert!(t.estimate(*k) <= 16);
            }
        }
        t.clear();
        assert_eq!(t.estimate(1), 0);
        let mut s = CountMinSketch::new(width as u64).unwrap();
        for i in 0..40u64 {
            s.increment(i.wrapping_mul(0x9e3779b97f4a7c15));
        }
        s.reset();
        s.clear();
        let mut r = CountMinRow::new(width as u64);
        for i in 0..(width as u64 * 2) {
            r.increment(i);
            assert_eq!(r.get(i), 1);
        }
        r.reset();
    }
    for (cap, p) in [(1usize, 0.05f64), (10, 0.01), (64, 0.001), (700, 0.01)] {
        let mut b = Bloom::new(cap, p);
        let mut added = Vec::new();
        for i in 0..cap.min(80) as u64 {
            let h = match i % 4 {
                0 => rng(&mut seed),
                1 => i << 40,
                2 => i,
                _ => u64::MAX - i,
            };
            b.add(h);
            added.push(h);
            assert!(b.contains(h), "false negative");
        }
        for h in &added {
            assert!(b.contains(*h), "false negative later");
        }
        let _ = b.contains_or_add(rng(&mut seed));
        b.reset();
        assert_eq!(b.bits_set(), 0);
        for h in &added {
            assert!(!b.contains(*h));
        }
    }
}

type C = Cache<u64, u64, TransparentKeyBuilder<u64>>;
fn cache(max: i64) -> C {
    Cache::builder(64, max).set_key_builder(TransparentKeyBuilder::default()).set_ignore_internal_cost(true).set_buffer_items(2).set_cleanup_duration(Duration::from_millis(5)).finalize().unwrap()
}

/// C02: ValueRef / ValueRefMut keep the shard guard as long as the reference; no race on the value cell
fn store_race(mut seed: u64) {
    let c = Arc::new(cache(100));
    for k in 0..3u64 {
        // keys 0, 256, 512 share a shard
        c.insert(k * 256, k, 1);
    }
    c.wait().unwrap();
    let mut hs = Vec::new();
    for t in 0..3u64 {
        let c = c.clone();
        let mut s = seed ^ (t + 1) * 7919;
        hs.push(std::thread::spawn(move || {
            for i in 0..12u64 {
                let k = (rng(&mut s) % 3) * 256;
                match (rng(&mut s) >> 8) % 6 {
                    0 => {
                        if let Some(v) = c.get(&k) {
                            let x = *v.value();
                            assert!(x == k / 256 || x >= 1000, "foreign value {x} under key {k}");
                            let _ = v.ttl();
                        }
                    }
                    1 => {
                        if let Some(mut m) = c.get_mut(&k) {
                            *m.value_mut() = 1000 + k / 256 * 100 + t * 10 + i % 10;
                        }
                    }
                    2 => {
                        c.insert(k, 1000 + k / 256 * 100 + t * 10 + i % 10, 1);
                    }
                    3 => {
                        let _ = c.try_remove(&k);
                    }
                    4 => {
                        let _ = c.get_ttl(&k);
                    }
                    _ => {
                        c.insert_with_ttl(k, 1000 + k / 256 * 100 + t, 1, Duration::from_millis(1));
                    }
                }
            }
        }));
    }
    for h in hs {
        h.join().unwrap();
    }
    let _ = rng(&mut seed);
    c.wait().unwrap();
    c.close().unwrap();
    drop(c);
    workers_gone();
}

/// C12 / C10: build, use, close or drop; Miri reports threads still running at exit, leaks, deadlock
fn lifecycle(mut seed: u64) {
    for mode in 0..3 {
        let c = cache(3);
        for i in 0..8u64 {
            c.insert(rng(&mut seed) % 6, i, 1);
            let _ = c.get(&(i % 6));
        }
        let _ = c.wait();
        match mode {
            0 => {
                c.close().unwrap();
                c.close().unwrap();
                assert!(!c.insert(1, 1, 1));
                assert!(c.get(&1).is_none());
                c.wait().unwrap();
                c.clear().unwrap();
            }
            1 => {
                let c2 = c.clone();
                let h = std::thread::spawn(move || {
                    let _ = c2.wait();
                    let _ = c2.clear();
                });
                let _ = c.close();
                h.join().unwrap();
            }
            _ => {} // dropped without close
        }
        drop(c);
    }
    workers_gone();
}

/// close() (or dropping the last handle) need not wait for the background workers: wait for their
/// guards to be dropped before the main thread returns (Miri reports threads that are still running).
fn workers_gone() {
    // give the workers of a dropped cache the chance to notice the disconnected channels
    for _ in 0..200 {
        std::thread::yield_now();
    }
    let t0 = std::time::Instant::now();
    loop {
        let c = stretto::verif::counters::snapshot();
        if c.CACHE_WORKERS_EXITED >= c.CACHE_WORKERS_STARTED && c.POLICY_WORKERS_EXITED >= c.POLICY_WORKERS_STARTED {
            break;
        }
        assert!(t0.elapsed() < Duration::from_secs(120), "workers did not exit: {c:?}");
        std::thread::yield_now();
    }
    // the guards are dropped just before the worker closures return
    for _ in 0..200 {
        std::thread::yield_now();
    }
}

fn main() {
    let a: Vec<String> = std::env::args().collect();
    let scen = a.get(1).map(|s| s.as_str()).unwrap_or("components");
    let seed: u64 = a.get(2).and_then(|s| s.parse().ok()).unwrap_or(1) | 1;
    match scen {
        "components" => components(seed),
        "store" => store_race(seed),
        "lifecycle" => lifecycle(seed),
        other => panic!("unknown scenario {other}"),
    }
    println!("vmini {scen} seed {seed}: ok");
}
