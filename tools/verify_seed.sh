#!/bin/bash
# verify_seed.sh <worktree> <patchfile-in-seed_out> <demo-name-in-examples> <dest-id> [features]
# Confirms: patch applies, builds (both feature sets), pinned suite passes, demo fails with and passes without.
wt=$1; patch=$2; demo=$3; dest=$4; feat=${5:-}
out=/verif/seeded/$dest; mkdir -p $out
cd $wt || exit 2
git checkout -q -- src
cp seed_out/$demo.rs examples/$demo.rs 2>/dev/null
fa=""; [ -n "$feat" ] && fa="--features $feat"
{
echo "## without the change"
timeout 600 cargo run --offline --release --example $demo $fa > $out/demo_without.log 2>&1; rc_without=$?
echo "demo exit without: $rc_without"
git apply seed_out/$patch || { echo "PATCH DOES NOT APPLY"; exit 2; }
echo "## with the change"
cargo build --offline 2>&1 | grep -E "^error" ; b1=${PIPESTATUS[0]}
cargo build --offline --features async 2>&1 | grep -E "^error"; b2=${PIPESTATUS[0]}
echo "build: $b1 build(async): $b2"
cargo nextest run --workspace --no-fail-fast --test-threads 8 --offline > $out/suite_full.log 2>&1; tail -3 $out/suite_full.log > $out/suite_with.log; cat $out/suite_with.log
# timing tests flake when the machine is loaded: re-run each failed test alone (up to 4 times)
flaky_ok=1
for t in $(grep -E "^ +FAIL " $out/suite_full.log | awk '{print $NF}' | sort -u); do
  ok=0
  for i in 1 2 3 4; do
    if cargo nextest run --offline --test-threads 1 "$t" > /dev/null 2>&1; then ok=1; break; fi
  done
  echo "retry alone: $t -> $ok" | tee -a $out/suite_with.log
  [ $ok = 1 ] || flaky_ok=0
done
echo "suite_after_retries_ok=$flaky_ok" | tee -a $out/suite_with.log
rm -f $out/suite_full.log
timeout 600 cargo run --offline --release --example $demo $fa > $out/demo_with.log 2>&1; rc_with=$?
echo "demo exit with: $rc_with"
git diff -- src > $out/patch.diff
cp seed_out/$demo.rs $out/seed_demo.rs
cp seed_out/NOTES.md $out/NOTES.md
git checkout -q -- src
echo "RESULT dest=$dest without=$rc_without with=$rc_with suite=$(grep -o '[0-9]* passed' $out/suite_with.log | head -1) retries_ok=$(grep -o "suite_after_retries_ok=[01]" $out/suite_with.log)"
} 2>&1 | tee $out/verify.log
