#!/bin/bash
# tools/silence.sh <tier> <seed> [<seed> ...] : run every registered check at each seed on the current tree; print anything that is not silent
tier=$1; shift
cd /verif
for s in "$@"; do
  for p in $(python3 -c "import json; print(' '.join(c['property_id'] for c in json.load(open('MANIFEST.json'))['checks']))"); do
    out=$(VERIF_SEED=$s ./check $p --tier $tier 2>&1); rc=$?
    if [ $rc -ne 0 ] || echo "$out" | grep -q "^VIOLATION\|^INCONCLUSIVE\|^KNOWN-FINDING"; then
      echo "### seed=$s $p rc=$rc"; echo "$out" | grep -v "^\[" | head -12 | cut -c1-400
    fi
  done
  echo "seed $s done"
done
git checkout -- evidence 2>/dev/null
echo SILENCE-DONE
