#!/usr/bin/env python3
"""Markdown table of the seeded changes of one round: id, target, change, verdict of the target check, all checks that caught it.
   tools/seed_table.py seed2-        (prefix of the ids)"""
import json, glob, os, sys
ROOT = os.path.dirname(os.path.dirname(os.path.abspath(__file__)))
prefix = sys.argv[1] if len(sys.argv) > 1 else "seed2-"
tsweep = json.load(open(os.path.join(ROOT, "seeded/TARGET_SWEEP.json")))["results"]
print("| id | breaks | change (what it needs to manifest) | target check | caught by (quick tier, all checks) |")
print("|---|---|---|---|---|")
for d in sorted(glob.glob(os.path.join(ROOT, "seeded", prefix + "*"))):
    sid = os.path.basename(d)
    m = json.load(open(os.path.join(d, "meta.json")))
    tgt = m.get("breaks_property", "")
    res = {}
    rp = os.path.join(d, "result.json")
    if os.path.exists(rp):
        res = json.load(open(rp))
    caught = sorted(p for p, v in res.items() if v.get("verdict") == "CAUGHT")
    incon = sorted(p for p, v in res.items() if v.get("verdict", "").startswith("inconclusive"))
    tv = []
    for p in tgt.replace("/", ",").split(","):
        v = (tsweep.get(sid, {}).get(p) or res.get(p) or {}).get("verdict", "not run")
        tv.append(f"{p}: {v}")
    chg = m.get("change", "")[:170] + ("..." if len(m.get("change", "")) > 170 else "")
    needs = m.get("needs_to_manifest", "")[:120]
    note = " **neutralised**" if m.get("status") == "neutralised" else ""
    print(f"| {sid}{note} | {tgt} | {chg} *({needs})* | {'; '.join(tv)} | {' '.join(caught) or ('-' if res else '(matrix not run)')}{(' (inconclusive: ' + ' '.join(incon) + ')') if incon else ''} |")
