#!/bin/bash
# tools/r5_collect.sh <Cxx> [a|b ...] : confirm the round-5 sub-agent deliverables of /tmp/r5/<Cxx>/seed_out
# (patch applies, builds with both feature sets, pinned suite passes with it, demonstration passes without
# the change and fails with it) and file them as /verif/seeded/seed5-<Cxx>-<letter>/ . Worktrees are independent,
# so several properties can be collected in parallel.
p=$1; shift
letters=${@:-a b}
wt=${R5_DIR:-/tmp/r5}/$p
for l in $letters; do
  [ -f $wt/seed_out/$l.patch ] || continue
  feat=""
  grep -qiE "features? +async|--features async" $wt/seed_out/NOTES.md 2>/dev/null && grep -q "stretto::AsyncCache\|AsyncCache" $wt/seed_out/demo_$l.rs && feat="async"
  [ -n "$R5_FEAT" ] && feat=$R5_FEAT
  (cd $wt && git checkout -q -- src)
  /verif/tools/verify_seed.sh $wt $l.patch demo_$l ${R5_TAG:-seed5}-$p-$l $feat | tail -12
done
