#!/usr/bin/env python3
"""Apply a seeded change to /repo, run checks against it, undo it straight afterwards.

  tools/seedtest.py <patch.diff> [--tier quick] [--seed N] [Cxx ...]      (default: all checks)
Prints one line per check: CAUGHT (exit 1 + VIOLATION line), silent (exit 0), inconclusive (exit 2).
"""
import json, os, subprocess, sys, time
ROOT = os.path.dirname(os.path.dirname(os.path.abspath(__file__)))

def sh(cmd, **kw):
    return subprocess.run(cmd, shell=True, text=True, stdout=subprocess.PIPE, stderr=subprocess.STDOUT, **kw)

def main():
    args = sys.argv[1:]
    patch = os.path.abspath(args[0])
    tier, seed, props = "quick", None, []
    i = 1
    while i < len(args):
        if args[i] == "--tier": tier = args[i+1]; i += 2
        elif args[i] == "--seed": seed = args[i+1]; i += 2
        else: props.append(args[i]); i += 1
    if not props:
        props = [c["property_id"] for c in json.load(open(os.path.join(ROOT, "MANIFEST.json")))["checks"]]
    st = sh("git -C /repo status --porcelain --untracked-files=no")
    if st.stdout.strip():
        print("refusing: /repo has uncommitted changes:\n" + st.stdout); return 2
    ap = sh(f"git -C /repo apply {patch}")
    if ap.returncode != 0:
        print("patch does not apply:\n" + ap.stdout); return 2
    results = {}
    try:
        for p in props:
            t0 = time.time()
            env = dict(os.environ)
            if seed: env["VERIF_SEED"] = seed
            r = subprocess.run([os.path.join(ROOT, "check"), p, "--tier", tier], cwd=ROOT, env=env, text=True, stdout=subprocess.PIPE, stderr=subprocess.STDOUT)
            viol = [l for l in r.stdout.splitlines() if l.startswith("VIOLATION")]
            sigs = [l.strip() for l in r.stdout.splitlines() if l.startswith("  ") and " x" in l][:4]
            verdict = "CAUGHT" if (r.returncode == 1 and viol) else ("silent" if r.returncode == 0 else f"inconclusive(rc={r.returncode})")
            results[p] = dict(verdict=verdict, wall=round(time.time()-t0, 1), signatures=sigs)
            print(f"{p}: {verdict:14s} {time.time()-t0:5.1f}s  " + (" | ".join(s[:150] for s in sigs[:2])), flush=True)
    finally:
        sh("git -C /repo checkout -- .")
        # evidence files were rewritten by runs against a modified tree: restore the committed ones
        sh(f"git -C {ROOT} checkout -- evidence")
    out = os.environ.get("SEEDTEST_OUT")
    if out:
        json.dump(results, open(out, "w"), indent=1)
    return 0

if __name__ == "__main__":
    sys.exit(main())
