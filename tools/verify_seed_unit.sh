#!/bin/bash
# verify_seed_unit.sh <worktree> <patch> <testfile-in-seed_out> <module-name> <dest-id>
# For demonstrations that are crate-internal unit tests (private components).
wt=$1; patch=$2; demo=$3; module=$4; dest=$5
out=/verif/seeded/$dest; mkdir -p $out
cd $wt || exit 2
git stash -q 2>/dev/null; git checkout -q -- . ; git stash drop -q 2>/dev/null
cp seed_out/$demo src/$module.rs
python3 - "$module" <<'PY'
import sys
m=sys.argv[1]
s=open('src/lib.rs').read()
if f"mod {m};" not in s:
    s=s.replace("pub(crate) mod utils;","pub(crate) mod utils;\n#[cfg(test)]\nmod %s;" % m,1)
    open('src/lib.rs','w').write(s)
PY
{
echo "## without the change"
timeout 900 cargo test --offline $module > $out/demo_without.log 2>&1; rc_without=$?
echo "demo exit without: $rc_without"
git apply seed_out/$patch || { echo "PATCH DOES NOT APPLY"; exit 2; }
cargo build --offline 2>&1 | grep -E "^error"; cargo build --offline --features async 2>&1 | grep -E "^error"
timeout 900 cargo test --offline $module > $out/demo_with.log 2>&1; rc_with=$?
echo "demo exit with: $rc_with"
# the pinned suite without the demo module
git diff -- src/lib.rs > /dev/null
cargo nextest run --workspace --no-fail-fast --test-threads 8 --offline 2>&1 | tail -4 > $out/suite_with.log; cat $out/suite_with.log
cp seed_out/$patch $out/patch.diff; cp seed_out/$demo $out/seed_demo.rs; cp seed_out/NOTES.md $out/NOTES.md
git checkout -q -- . ; rm -f src/$module.rs
echo "RESULT dest=$dest without=$rc_without with=$rc_with suite=$(grep -o '[0-9]* passed' $out/suite_with.log | head -1) (suite includes the demo tests, which fail by design with the change)"
} 2>&1 | tee $out/verify.log
