#!/bin/bash
# reverify.sh id [features]: demo of seed id against /repo HEAD with the (rebased) patch, in scratch worktree /tmp/wt2/RV
id=$1; feat=${2:-}
wt=/tmp/wt2/RV
[ -d $wt ] || git -C /repo worktree add -q --detach $wt HEAD
cd $wt && git checkout -q -- . && git checkout -q --detach $(git -C /repo rev-parse HEAD)
fa=""; [ -n "$feat" ] && fa="--features $feat"
cp /verif/seeded/$id/seed_demo.rs examples/seed_demo.rs
timeout 900 cargo run --offline --release --example seed_demo $fa > /tmp/rv_without.log 2>&1; a=$?
git apply /verif/seeded/$id/patch.diff || { echo "REVERIFY $id: patch does not apply"; exit 2; }
timeout 900 cargo run --offline --release --example seed_demo $fa > /tmp/rv_with.log 2>&1; b=$?
git checkout -q -- src; rm -f examples/seed_demo.rs
echo "REVERIFY $id at $(git -C /repo rev-parse --short HEAD): without=$a with=$b"
