#!/usr/bin/env python3
"""Regenerates MANIFEST.json from plan.py (kept in one place so that it is always valid)."""
import json, subprocess, sys
sys.path.insert(0, "/verif")
from plan import PLAN
props = [json.loads(l) for l in open("/verif/properties.jsonl")]
hooks = subprocess.run(["git", "-C", "/repo", "log", "--format=%H %s"], capture_output=True, text=True).stdout.splitlines()
hook_commits = [l.split()[0] for l in hooks if l.split(" ", 1)[1].startswith("verif hooks")]
DESC = {
    "lockstep": "scripted histories on the real cache (virtual clock, manually fed ticks, quiescence after every step) with the observation trace checked offline against an executable reference model",
    "hostile": "concurrent hostile workloads (2-16 client threads, few keys, seeded delays at yield points) with a per-call event log checked offline (history checkers, invariants at the quiescent end)",
    "gated": "directed interleavings: one thread parked at a named yield point of the real code while a racing operation runs, judged by the same offline checkers",
    "policy": "the policy's observer log (sampled candidates, victims, charges) replayed against the admission / eviction rule",
    "sketch": "component oracle: randomized record / reset / clear sequences on the real estimator against exact counts",
    "bloom": "component oracle: membership and false-positive rates of the real doorkeeper over structured and random hash sets",
    "keys": "component oracle: (index, conflict) pairs of the real key builders over exhaustive and sampled key domains",
    "differential": "Cache and AsyncCache run on the same histories, traces compared observation by observation",
    "close": "lifecycle scenarios around close() incl. directed ones, with state-based hang / livelock diagnosis and worker-exit guards",
    "waitrace": "wait() racing close / clear, with state-based hang diagnosis",
    "grid": "configuration grid with a workload per configuration, panic monitor, hang / livelock diagnosis",
    "types": "value-type scenarios comparing charges and callback costs with the Coster / explicit costs",
    "miri": "Miri (undefined behaviour, data races) on small scenarios of the hooks-enabled crate [thorough tier]",
}


def technique(pl):
    out = []
    for st in pl["stages"]:
        if st.get("sanitizer"):
            t = {"tsan": "ThreadSanitizer", "asan": "AddressSanitizer"}[st["sanitizer"]] + f" build of the {st['engine']} workload [thorough tier]"
        else:
            t = f"{st['engine']}: {DESC.get(st['engine'], st['engine'])}"
        if t not in out:
            out.append(t)
    return "runtime monitoring of the real code through cfg-gated hooks - " + "; ".join(out)


checks, na = [], []
for p in props:
    pid = p["id"]
    if pid in PLAN and not PLAN[pid].get("disabled"):
        pl = PLAN[pid]
        checks.append(dict(
            property_id=pid,
            quick_cmd=f"./check {pid} --tier quick",
            thorough_cmd=f"./check {pid} --tier thorough",
            evidence_file=f"/verif/evidence/{pid}.json",
            replay_cmd_template=f"./check {pid} --replay {{path}}",
            engine=",".join(s["engine"] for s in pl["stages"]),
            level_claimed=dict(category="exploration", text=pl.get("level_text", "held on the executions explored: real code run under generated workloads with a deterministic oracle over recorded events; not a proof"), design_ref=pl.get("design_ref", f"DESIGN.md section 6 ({pid})")),
            level_note="; ".join(pl.get("assumptions", [])) or "hooks record faithfully; oracle as stated in DESIGN.md",
            technique=pl.get("technique", technique(pl)),
        ))
    else:
        na.append(dict(property_id=pid, reason=(PLAN.get(pid, {}).get("disabled") or "check not built yet in this phase (planned: see DESIGN.md section 6)")))
m = dict(
    version=1,
    setup_cmd="./check --setup",
    hooks=dict(
        guard="--cfg transparencies_stretto_verif",
        enable="harness/.cargo/config.toml passes --cfg transparencies_stretto_verif through build.rustflags; the harness depends on /repo by path (features sync, async)",
        baseline_off_cmd="cd /repo && cargo nextest run --workspace --no-fail-fast --test-threads 8 --offline",
        source_commits=hook_commits,
        add_only=False,
    ),
    engines=[dict(name="vcheck", path="/verif/harness", serves_properties=sorted(PLAN.keys()), kind_free_text="Rust harness: workloads, reference models, history checkers, hook-based invariants; driven by /verif/check")],
    checks=checks,
    not_applicable=na,
    notes="add_only=false because of one line: the `use std::time::{Duration, SystemTime, UNIX_EPOCH}` import of src/ttl.rs is split so that SystemTime can be the virtual clock type under the guard; every other hook is an added cfg-gated item or statement.",
)
json.dump(m, open("/verif/MANIFEST.json", "w"), indent=1)
print(f"{len(checks)} checks, {len(na)} not_applicable")
