#!/usr/bin/env python3
"""Regenerates MANIFEST.json from plan.py (kept in one place so that it is always valid)."""
import json, subprocess, sys
sys.path.insert(0, "/verif")
from plan import PLAN
props = [json.loads(l) for l in open("/verif/properties.jsonl")]
hooks = subprocess.run(["git", "-C", "/repo", "log", "--format=%H %s"], capture_output=True, text=True).stdout.splitlines()
hook_commits = [l.split()[0] for l in hooks if l.split(" ", 1)[1].startswith("verif hooks")]
checks, na = [], []
for p in props:
    pid = p["id"]
    if pid in PLAN and not PLAN[pid].get("disabled"):
        pl = PLAN[pid]
        checks.append(dict(
            property_id=pid,
            quick_cmd=f"./check {pid} --tier quick",
            thorough_cmd=f"./check {pid} --tier thorough",
            evidence_file=f"/verif/evidence/{pid}.json",
            replay_cmd_template=f"./check {pid} --replay {{path}}",
            engine=",".join(s["engine"] for s in pl["stages"]),
            level_claimed=dict(category="exploration", text=pl.get("level_text", "held on the executions explored: real code run under generated workloads with a deterministic oracle over recorded events; not a proof"), design_ref=pl.get("design_ref", f"DESIGN.md section 6 ({pid})")),
            level_note="; ".join(pl.get("assumptions", [])) or "hooks record faithfully; oracle as stated in DESIGN.md",
            technique=pl.get("technique", "runtime monitoring: " + ", ".join(s["engine"] for s in pl["stages"])),
        ))
    else:
        na.append(dict(property_id=pid, reason=(PLAN.get(pid, {}).get("disabled") or "check not built yet in this phase (planned: see DESIGN.md section 6)")))
m = dict(
    version=1,
    setup_cmd="./check --setup",
    hooks=dict(
        guard="--cfg transparencies_stretto_verif",
        enable="harness/.cargo/config.toml passes --cfg transparencies_stretto_verif through build.rustflags; the harness depends on /repo by path (features sync, async)",
        baseline_off_cmd="cd /repo && cargo nextest run --workspace --no-fail-fast --test-threads 8 --offline",
        source_commits=hook_commits,
        add_only=False,
    ),
    engines=[dict(name="vcheck", path="/verif/harness", serves_properties=sorted(PLAN.keys()), kind_free_text="Rust harness: workloads, reference models, history checkers, hook-based invariants; driven by /verif/check")],
    checks=checks,
    not_applicable=na,
    notes="add_only=false because of one line: the `use std::time::{Duration, SystemTime, UNIX_EPOCH}` import of src/ttl.rs is split so that SystemTime can be the virtual clock type under the guard; every other hook is an added cfg-gated item or statement.",
)
json.dump(m, open("/verif/MANIFEST.json", "w"), indent=1)
print(f"{len(checks)} checks, {len(na)} not_applicable")
